import AwsVerif.Proofs.C20.CountStep
import AwsVerif.Proofs.C20.LogInv
/-! c20_join_all: a successful `aws_thread_join_all_managed` has seen every managed thread launched before it joined. -/
namespace AwsVerif.Threads

theorem mem_launchedManaged (P : Prog) (s : State) (n k : Nat) (h : k ∈ launchedManaged P s n) :
    P.managed k = true ∧ (s.th k).status ≠ .notCreated ∧ k < n := by
  induction n with
  | zero => simp [launchedManaged] at h
  | succ n ih =>
    simp only [launchedManaged, List.mem_append] at h
    rcases h with h | h
    · split at h
      · rename_i hc
        simp at h; subst h
        simp at hc
        exact ⟨hc.1, hc.2, Nat.lt_succ_self _⟩
      · cases h
    · have := ih h; exact ⟨this.1, this.2.1, Nat.lt_succ_of_lt this.2.2⟩

/-- what `exec` does to the join-all bookkeeping of the executing thread -/
theorem exec_join_frame (P : Prog) (s s' : State) (t : Nat) (i : Instr) (rest : List Instr)
    (h : exec P s t i rest = some s') :
    ((s'.th t).rSnap = (s.th t).rSnap ∨ (s'.th t).rSnap = launchedManaged P s P.n) ∧
    (∀ snap, Instr.jaRet true snap ∈ (s'.th t).code →
      Instr.jaRet true snap ∈ i :: rest ∨ (s.count = 0 ∧ snap = (s.th t).rSnap)) ∧
    (∀ t' snap, s'.log = Ev.joinAllRet t' true snap :: s.log → i = .jaRet true snap) := by
  cases i
  case' act a => cases a
  case' joinAndFree l => cases l
  all_goals exec_split h
  all_goals (
    simp only [cont_th, pushW_th, pushLog_th, freeWrapper_th, cont_log, pushW_log, pushLog_log, freeWrapper_log,
      upd_same, expand, cont_count]
    refine ⟨?_, ?_, ?_⟩
    · first
      | exact Or.inl rfl
      | exact Or.inl trivial
      | exact Or.inr rfl
      | exact Or.inr trivial
      | (simp only [upd_apply]; split
         · rename_i hh; subst hh; exact Or.inl rfl
         · exact Or.inl rfl)
    · intro snap hm
      first
      | (simp_all [List.mem_cons, List.mem_append]; done)
      | (simp [List.mem_cons, List.mem_append] at hm ⊢; first | exact Or.inl hm | exact Or.inr hm | exact hm)
      | ((repeat' split at hm) <;> simp_all [List.mem_cons, List.mem_append] <;>
         (rename_i hd; rcases hm with ⟨⟨_, h1⟩, h2⟩ | h2
          · rcases hd with hd | hd
            · exact Or.inr ⟨hd, h2⟩
            · rcases h1 with h1 | h1
              · exact absurd h1 hd.1
              · omega
          · exact Or.inl h2))
    · intro t' snap hl
      first
      | exact absurd hl (List.ne_cons_self _ _).symm
      | (simp at hl; done)
      | (simp at hl; obtain ⟨_, rfl, rfl⟩ := hl; rfl))

/-- with count = 0 no managed thread is between creation and being joined -/
theorem count_zero_no_live (P : Prog) (s : State) (hi : CountInv P s) (h0 : s.count = 0) (k : Nat) (hk : k < P.n)
    (hm : P.managed k = true) : isLive (s.th k).status = false := by
  by_cases hl : isLive (s.th k).status = true
  · exfalso
    have h1 : sumTo P.n (fun j => wMinus P (s.th j)) + 1 ≤ sumTo P.n (fun j => wPlus P j (s.th j)) := by
      refine sumTo_lt P.n k _ _ hk (fun j _ => ?_) ?_
      · have := sufOk_le P _ (hi.suf j); simp only [wMinus, wPlus]; omega
      · have := sufOk_le P _ (hi.suf k); simp only [wMinus, wPlus, hm, hl]; simp; omega
    have := hi.eq
    unfold CountEq at this
    omega
  · simpa using hl

theorem joined_of_not_live (st : Status) (h1 : isLive st = false) (h2 : st ≠ .notCreated) : st = .joined := by
  cases st <;> simp_all [isLive, Status.rank]

theorem status_ne_notCreated_stable (P : Prog) (s s' : State) (t k : Nat) (h : step P s t = some s')
    (hk : (s.th k).status ≠ .notCreated) : (s'.th k).status ≠ .notCreated := by
  by_cases hkt : k = t
  · subst hkt
    cases step_own P s s' k h with
    | start _ h1 => rw [h1]; simp
    | exec hs ho =>
      rcases ho.1 with h1 | ⟨_, h1⟩
      · rw [h1]; exact hk
      · rw [h1]; simp
    | funcEnd _ _ h1 => rw [h1]; simp
    | exit _ h1 => rw [h1]; simp
    | cb c _ _ h1 => rw [h1]; simp
    | atexitDone _ _ _ h1 => rw [h1]; simp
  · rcases step_other P s s' t h k hkt with h1 | h1 | ⟨_, _, _, h1⟩ | ⟨_, h1⟩ <;> rw [h1] <;> simp [hk]

structure JoinInv (P : Prog) (s : State) : Prop where
  snap : ∀ t k, k ∈ (s.th t).rSnap → P.managed k = true ∧ (s.th k).status ≠ .notCreated ∧ k < P.n
  ret : ∀ t snap, Instr.jaRet true snap ∈ (s.th t).code → ∀ k, k ∈ snap → (s.th k).status = .joined
  logged : ∀ t snap, Ev.joinAllRet t true snap ∈ s.log → ∀ k, k ∈ snap → (s.th k).status = .joined

theorem joinInv_init (P : Prog) : JoinInv P (init P) := by
  refine ⟨fun t k hm => ?_, fun t snap hm => ?_, fun t snap hm => ?_⟩
  · simp only [init] at hm; split at hm <;> cases hm
  · simp only [init] at hm; split at hm <;> cases hm
  · simp [init] at hm

theorem otherRel_snap {s : State} {k : Nat} {a b : Th} (h : OtherRel s k a b) : b.rSnap = a.rSnap ∨ b.rSnap = [] := by
  rcases h with rfl | rfl | ⟨_, _, _, rfl⟩ | ⟨_, rfl⟩ <;> simp

theorem joinInv_thr (P : Prog) (s s' : State) (t : Nat) (h : step P s t = some s') (hc : CountInv P s)
    (hi : JoinInv P s) : JoinInv P s' := by
  have mono1 := fun k => status_ne_notCreated_stable P s s' t k h
  have mono2 := fun k => joined_stable P s s' t k h
  have oth := step_other P s s' t h
  -- facts about the stepping thread and the log, by branch
  have key : (∀ k, k ∈ (s'.th t).rSnap → P.managed k = true ∧ (s.th k).status ≠ .notCreated ∧ k < P.n) ∧
      (∀ snap, Instr.jaRet true snap ∈ (s'.th t).code → ∀ k, k ∈ snap → (s.th k).status = .joined) ∧
      (∀ t' snap, Ev.joinAllRet t' true snap ∈ s'.log → ∀ k, k ∈ snap → (s.th k).status = .joined) := by
    rcases step_cases P s s' t h with ⟨hs, rfl⟩ | ⟨hs, _, hcd, rfl⟩ | ⟨hs, _, hcd, rfl⟩ | ⟨hs, rfl⟩ | ⟨hs, hcd, rfl⟩ | ⟨hs, i, rest, hcd, he⟩
    · refine ⟨by simpa using hi.snap t, fun snap hm => ?_, fun t' snap hm => ?_⟩
      · simp at hm
      · simp at hm; exact hi.logged t' snap hm
    · refine ⟨by simpa using hi.snap t, fun snap hm => ?_, fun t' snap hm => ?_⟩
      · simp [hcd] at hm
      · exact hi.logged t' snap (by simpa using hm)
    · refine ⟨by simpa using hi.snap t, fun snap hm => ?_, fun t' snap hm => ?_⟩
      · simp [hcd] at hm
      · simp at hm; exact hi.logged t' snap hm
    · cases hch : (s.th t).chain with
      | nil =>
        rw [atexitStep_nil P s t hch]
        refine ⟨by simpa using hi.snap t, fun snap hm => ?_, fun t' snap hm => hi.logged t' snap hm⟩
        simp [handOverCode] at hm
      | cons c cs =>
        rw [atexitStep_cons P s t c cs hch]
        refine ⟨by simpa using hi.snap t, fun snap hm => ?_, fun t' snap hm => ?_⟩
        · exact hi.ret t snap (by simpa using hm)
        · simp at hm; exact hi.logged t' snap hm
    · refine ⟨by simpa using hi.snap t, fun snap hm => ?_, fun t' snap hm => ?_⟩
      · simp [hcd] at hm
      · exact hi.logged t' snap (by simpa using hm)
    · obtain ⟨f1, f2, f3⟩ := exec_join_frame P s s' t i rest he
      refine ⟨fun k hm => ?_, fun snap hm k hk => ?_, fun t' snap hm k hk => ?_⟩
      · rcases f1 with f1 | f1 <;> rw [f1] at hm
        · exact hi.snap t k hm
        · exact mem_launchedManaged P s P.n k hm
      · rcases f2 snap hm with f2 | ⟨h0, rfl⟩
        · exact hi.ret t snap (by rw [hcd]; exact f2) k hk
        · obtain ⟨hmg, hne, hlt⟩ := hi.snap t k hk
          exact joined_of_not_live _ (count_zero_no_live P s hc h0 k hlt hmg) hne
      · rcases ownStep_log (step_own P s s' t h) with hl | ⟨e, hl, _⟩
        · rw [hl] at hm; exact hi.logged t' snap hm k hk
        · rw [hl] at hm
          rcases List.mem_cons.mp hm with hm | hm
          · subst hm
            have := f3 t' snap hl
            subst this
            exact hi.ret t snap (by rw [hcd]; simp) k hk
          · exact hi.logged t' snap hm k hk
  obtain ⟨k1, k2, k3⟩ := key
  refine ⟨fun j k hm => ?_, fun j snap hm k hk => ?_, fun j snap hm k hk => mono2 k (k3 j snap hm k hk)⟩
  · by_cases hj : j = t
    · subst hj
      obtain ⟨a, b, c⟩ := k1 k hm
      exact ⟨a, mono1 k b, c⟩
    · rcases otherRel_snap (oth j hj) with h1 | h1 <;> rw [h1] at hm
      · obtain ⟨a, b, c⟩ := hi.snap j k hm
        exact ⟨a, mono1 k b, c⟩
      · cases hm
  · by_cases hj : j = t
    · subst hj; exact mono2 k (k2 snap hm k hk)
    · rcases otherRel_code (oth j hj) with h1 | h1 <;> rw [h1] at hm
      · exact mono2 k (hi.ret j snap hm k hk)
      · cases hm

theorem joinInv_step (P : Prog) (s s' : State) (l : Label) (h : stepL P s l = some s') (hc : CountInv P s)
    (hi : JoinInv P s) : JoinInv P s' := by
  cases l with
  | thr t => exact joinInv_thr P s s' t h hc hi
  | tick d =>
    simp only [stepL, Option.some.injEq] at h; subst h
    exact ⟨hi.snap, hi.ret, hi.logged⟩
  | spur t =>
    simp only [stepL] at h
    split at h
    · simp only [Option.some.injEq] at h; subst h
      have e : ∀ k, ((upd s.th t { s.th t with woken := true }) k).status = (s.th k).status ∧
          ((upd s.th t { s.th t with woken := true }) k).code = (s.th k).code ∧
          ((upd s.th t { s.th t with woken := true }) k).rSnap = (s.th k).rSnap := by
        intro k; by_cases hk : k = t
        · subst hk; simp
        · simp [upd_apply, hk]
      refine ⟨fun j k hm => ?_, fun j snap hm k hk => ?_, fun j snap hm k hk => ?_⟩
      · simp only [(e j).2.2, (e k).1] at hm ⊢; exact hi.snap j k hm
      · simp only [(e j).2.1, (e k).1] at hm ⊢; exact hi.ret j snap hm k hk
      · simp only [(e k).1]; exact hi.logged j snap hm k hk
    · simp at h

theorem joinInv_reachable (P : Prog) (hn : 0 < P.n) (hm0 : P.managed 0 = false) (s : State) (h : Reachable P s) :
    CountInv P s ∧ JoinInv P s := by
  induction h with
  | init => exact ⟨countInv_init P hn hm0, joinInv_init P⟩
  | step l hr hs ih =>
    exact ⟨countInv_step P _ _ l hs (refInv_reachable P _ hr) ih.1, joinInv_step P _ _ l hs ih.1 ih.2⟩

end AwsVerif.Threads
