import AwsVerif.Proofs.C20.CountStep
/-! Mutual exclusion on `s_managed_thread_lock` and progress of the lock holder. -/
namespace AwsVerif.Threads

inductive Mode where
  | out | inn | wait
  deriving DecidableEq, Repr

/-- well-bracketed code: `lock … unlock` sections, a condition wait only inside a section and immediately
followed by its wake-up; `jaCheck` / `pjaSwapPush` end the section they are in (their expansion starts with `unlock`) -/
def wb : Mode → List Instr → Prop
  | .out, [] => True
  | .inn, [] => False
  | .wait, [] => False
  | .out, i :: r =>
    match i with
    | .lock => wb .inn r
    | .act _ | .joinAndFree _ | .jaLoop | .create _ _ _ _ | .createRet _ | .joinM _ | .joinU _ | .detach _ | .sleepUntil _ | .yield | .onceCall _ | .libInit | .logName | .markM _ | .libReinit
    | .allocW _ _ | .freeW _ _ | .logLaunch _ _ | .logJoin _ | .logCount | .jaBegin | .jaInit | .jaRet _ _ => wb .out r
    | _ => False
  | .inn, i :: r =>
    match i with
    | .unlock | .jaCheck | .pjaSwapPush => wb .out r
    | .cwait _ => wb .wait r
    | .signal | .incCount | .decCount | .readCount | .setTo _ | .readTo | .waitPred | .waitForPredInit
    | .waitForPred => wb .inn r
    | _ => False
  | .wait, i :: r =>
    match i with
    | .cwake => wb .inn r
    | _ => False

def modeOf (s : State) (t : Nat) : Mode :=
  if (s.th t).waiting = true then .wait else if s.lockOwner = some t then .inn else .out

theorem wb_map_act (l : List Action) : wb .out (l.map Instr.act) := by
  induction l with
  | nil => trivial
  | cons a r ih => simpa [wb] using ih

theorem exec_wb (P : Prog) (s s' : State) (t : Nat) (i : Instr) (rest : List Instr)
    (hw : wb (modeOf s t) (i :: rest)) (h : exec P s t i rest = some s') : wb (modeOf s' t) (s'.th t).code := by
  unfold modeOf at hw ⊢
  cases i
  case' act a => cases a
  case' joinAndFree l => cases l
  all_goals exec_split h
  all_goals (
    simp only [cont_th, pushW_th, pushLog_th, freeWrapper_th, upd_same, expand, cont_lockOwner, pushW_lockOwner,
      pushLog_lockOwner, freeWrapper_lockOwner, upd_apply] at hw ⊢
    (repeat' split at hw) <;> (try (simp [wb] at hw; done)) <;>
    (repeat' split) <;> (try simp_all [wb]) <;> (repeat' split) <;> (try simp_all [wb]))

theorem exec_mode_other (P : Prog) (s s' : State) (t : Nat) (i : Instr) (rest : List Instr)
    (hw : wb (modeOf s t) (i :: rest)) (h : exec P s t i rest = some s') (j : Nat) (hj : j ≠ t)
    (hout : (s.th j).status = .notCreated → modeOf s j = .out) : modeOf s' j = modeOf s j := by
  have hout' : (s.th j).status = .notCreated → (s.th j).waiting = false ∧ ¬ s.lockOwner = some j := by
    intro h0
    have := hout h0
    unfold modeOf at this
    by_cases h1 : (s.th j).waiting = true
    · simp [h1] at this
    · by_cases h2 : s.lockOwner = some j
      · simp [h1, h2] at this
      · exact ⟨by simpa using h1, h2⟩
  clear hout
  unfold modeOf at hw ⊢
  have hjt : ¬ t = j := fun e => hj e.symm
  cases i
  case' act a => cases a
  case' joinAndFree l => cases l
  all_goals exec_split h
  all_goals (
    simp only [cont_th, pushW_th, pushLog_th, freeWrapper_th, upd_same, cont_lockOwner, pushW_lockOwner,
      pushLog_lockOwner, freeWrapper_lockOwner, upd_apply, hj, if_false] at hw ⊢
    first
    | rfl
    | ((repeat' split at hw) <;> (try (simp [wb] at hw; done)) <;> (repeat' split) <;> (try simp_all [wb]) <;>
       (repeat' split) <;> (try simp_all [wb])))

/-- a waiting thread does not own the lock -/
theorem exec_nw (P : Prog) (s s' : State) (t : Nat) (i : Instr) (rest : List Instr)
    (hw : wb (modeOf s t) (i :: rest)) (h : exec P s t i rest = some s')
    (hi : ∀ j, (s.th j).waiting = true → ¬ s.lockOwner = some j) :
    ∀ j, (s'.th j).waiting = true → ¬ s'.lockOwner = some j := by
  unfold modeOf at hw
  intro j
  have hij := hi j
  have hit := hi t
  cases i
  case' act a => cases a
  case' joinAndFree l => cases l
  all_goals exec_split h
  all_goals (
    simp only [cont_th, pushW_th, pushLog_th, freeWrapper_th, cont_lockOwner, pushW_lockOwner,
      pushLog_lockOwner, freeWrapper_lockOwner, upd_apply] at hw ⊢
    first
    | exact hij
    | ((repeat' split at hw) <;> (try (simp [wb] at hw; done)) <;> (repeat' split) <;> (try simp_all [wb]) <;>
       (repeat' split) <;> (try simp_all [wb]) <;>
       (try (intro _ e; exact absurd e.symm (by assumption)))))

/-- every instruction that can stand at the head of the code of the lock holder is enabled -/
theorem cs_enabled (P : Prog) (s : State) (t : Nat) (i : Instr) (rest : List Instr)
    (hw : wb .inn (i :: rest)) : (exec P s t i rest).isSome = true := by
  cases i
  case' act a => cases a
  case' joinAndFree l => cases l
  all_goals (first | (simp [wb] at hw; done) | skip)
  all_goals (simp only [exec]; (repeat' split) <;> simp)

structure MutexInv (s : State) : Prop where
  wbAll : ∀ t, wb (modeOf s t) (s.th t).code
  nw : ∀ t, (s.th t).waiting = true → ¬ s.lockOwner = some t
  fin : ∀ t, ((s.th t).status = .exited ∨ (s.th t).status = .joined) → (s.th t).code = []

theorem wb_nil_out {m : Mode} (h : wb m []) : m = .out := by
  cases m <;> simp [wb] at h ⊢

theorem modeOf_upd_same (s : State) (t : Nat) (x : Th) (s' : State) (hth : s'.th = upd s.th t x)
    (hl : s'.lockOwner = s.lockOwner) (hwt : x.waiting = (s.th t).waiting) (j : Nat) : modeOf s' j = modeOf s j := by
  unfold modeOf
  rw [hl, hth]
  by_cases hj : j = t
  · subst hj; simp [hwt]
  · simp [upd_apply, hj]

theorem mutexInv_upd_self (s s' : State) (t : Nat) (x : Th) (hi : MutexInv s) (hth : s'.th = upd s.th t x)
    (hl : s'.lockOwner = s.lockOwner) (hwt : x.waiting = (s.th t).waiting)
    (hcode : wb (modeOf s t) x.code) (hfin : (x.status = .exited ∨ x.status = .joined) → x.code = []) : MutexInv s' := by
  have hm := modeOf_upd_same s t x s' hth hl hwt
  refine ⟨fun j => ?_, fun j hw => ?_, fun j hs => ?_⟩
  · rw [hm j]
    by_cases hj : j = t
    · subst hj; rw [hth]; simpa using hcode
    · rw [hth]; simpa [upd_apply, hj] using hi.wbAll j
  · rw [hl]
    by_cases hj : j = t
    · subst hj; rw [hth] at hw; simp [hwt] at hw; exact hi.nw j hw
    · rw [hth] at hw; simp [upd_apply, hj] at hw; exact hi.nw j hw
  · by_cases hj : j = t
    · subst hj; rw [hth] at hs ⊢; simp at hs ⊢; exact hfin hs
    · rw [hth] at hs ⊢; simp [upd_apply, hj] at hs ⊢; exact hi.fin j hs

theorem mutexInv_thr (P : Prog) (s s' : State) (t : Nat) (h : step P s t = some s') (hc : CountInv P s)
    (hi : MutexInv s) : MutexInv s' := by
  rcases step_cases P s s' t h with ⟨hs, rfl⟩ | ⟨hs, _, hcd, rfl⟩ | ⟨hs, _, hcd, rfl⟩ | ⟨hs, rfl⟩ | ⟨hs, hcd, rfl⟩ | ⟨hs, i, rest, hcd, he⟩
  · have hc0 := hc.nocode t (Or.inr (Or.inl hs))
    have hm : modeOf s t = .out := wb_nil_out (by have := hi.wbAll t; rwa [hc0] at this)
    refine mutexInv_upd_self s _ t _ hi (startStep_th P s t) rfl rfl ?_ (by simp)
    rw [hm]; exact wb_map_act _
  · refine mutexInv_upd_self s _ t _ hi (exitStep_th s t) rfl rfl ?_ (fun _ => hcd)
    simpa using hi.wbAll t
  · refine mutexInv_upd_self s _ t _ hi (funcEndStep_th P s t) ?_ rfl ?_ (by simp)
    · unfold funcEndStep; split <;> rfl
    · simpa using hi.wbAll t
  · have hc0 := hc.nocode t (Or.inr (Or.inr hs))
    have hm : modeOf s t = .out := wb_nil_out (by have := hi.wbAll t; rwa [hc0] at this)
    cases hch : (s.th t).chain with
    | nil =>
      rw [atexitStep_nil P s t hch]
      refine mutexInv_upd_self s _ t _ hi rfl rfl rfl ?_ (by simp)
      rw [hm]; simp only; split <;> simp [handOverCode, wb]
    | cons c cs =>
      rw [atexitStep_cons P s t c cs hch]
      refine mutexInv_upd_self s _ t _ hi rfl rfl rfl ?_ (by simp [hs])
      simpa using hi.wbAll t
  · refine mutexInv_upd_self s _ t _ hi (exitStep_th s t) rfl rfl ?_ (fun _ => hcd)
    simpa using hi.wbAll t
  · have hw := hi.wbAll t
    rw [hcd] at hw
    have oth := exec_other P s s' t i rest he
    have own := exec_own P s s' t i rest he
    refine ⟨fun j => ?_, exec_nw P s s' t i rest hw he hi.nw, fun j hs' => ?_⟩
    · by_cases hj : j = t
      · subst hj; exact exec_wb P s s' j i rest hw he
      · have hout : (s.th j).status = .notCreated → modeOf s j = .out := by
          intro h0
          have := hi.wbAll j
          rw [hc.nocode j (Or.inl h0)] at this
          exact wb_nil_out this
        rw [exec_mode_other P s s' t i rest hw he j hj hout]
        rcases oth j hj with h3 | h3 | ⟨h0, _, _, h3⟩ | ⟨h0, h3⟩
        · rw [h3]; exact hi.wbAll j
        · rw [h3]; exact hi.wbAll j
        · rw [h3, hout h0]; trivial
        · rw [h3]; exact hi.wbAll j
    · by_cases hj : j = t
      · subst hj
        exfalso
        rcases own.1 with h1 | ⟨_, h1⟩
        · rw [h1] at hs'
          rcases hs with hs | hs | hs <;> rw [hs] at hs' <;> simp at hs'
        · rw [h1] at hs'; simp at hs'
      · rcases oth j hj with h3 | h3 | ⟨_, _, _, h3⟩ | ⟨h0, h3⟩
        · rw [h3] at hs' ⊢; exact hi.fin j hs'
        · rw [h3] at hs' ⊢; exact hi.fin j hs'
        · rw [h3]
        · rw [h3]; exact hi.fin j (Or.inl h0)

theorem mutexInv_init (P : Prog) : MutexInv (init P) := by
  have hcode : ∀ k, ((init P).th k).code = [] := by intro k; simp only [init]; split <;> rfl
  have hw : ∀ k, ((init P).th k).waiting = false := by intro k; simp only [init]; split <;> rfl
  refine ⟨fun t => ?_, fun t h => ?_, fun t _ => hcode t⟩
  · rw [hcode]; unfold modeOf; rw [hw t]; simp [init, wb]
  · simp [hw] at h

theorem mutexInv_reachable (P : Prog) (hn : 0 < P.n) (hm0 : P.managed 0 = false) (s : State) (h : Reachable P s) :
    MutexInv s := by
  induction h with
  | init => exact mutexInv_init P
  | @step s s' l hr hs ih =>
    have hc := countInv_reachable P hn hm0 s hr
    cases l with
    | thr t => exact mutexInv_thr P s s' t hs hc ih
    | tick d =>
      simp only [stepL, Option.some.injEq] at hs; subst hs
      exact ⟨ih.wbAll, ih.nw, ih.fin⟩
    | spur t =>
      simp only [stepL] at hs
      split at hs
      · simp only [Option.some.injEq] at hs; subst hs
        refine mutexInv_upd_self s _ t _ ih rfl rfl rfl ?_ ?_
        · simpa using ih.wbAll t
        · simpa using ih.fin t
      · simp at hs

/-- instructions that touch `s_unjoined_thread_count`, the pending list, the timeout or wait on the condvar -/
def Instr.inCS : Instr → Bool
  | .unlock | .jaCheck | .pjaSwapPush | .cwait _ | .signal | .incCount | .decCount | .readCount | .setTo _ | .readTo
  | .waitPred | .waitForPredInit | .waitForPred => true
  | _ => false

theorem wb_head_cs {m : Mode} {i : Instr} {r : List Instr} (h : wb m (i :: r)) (hi : i.inCS = true) : m = .inn := by
  cases m
  · cases i <;> simp [wb, Instr.inCS] at h hi
  · rfl
  · cases i <;> simp [wb, Instr.inCS] at h hi

theorem wb_inn_head {i : Instr} {r : List Instr} (h : wb .inn (i :: r)) : i.inCS = true := by
  cases i <;> simp [wb, Instr.inCS] at h ⊢

end AwsVerif.Threads
