import AwsVerif.Proofs.C20.Frame
/-! Links between a thread's dynamic code and the static program text (who may launch / join whom). -/
namespace AwsVerif.Threads

def qJoin (k : Nat) : Instr → Bool
  | .joinU j => j == k
  | .act (.join j) => j == k
  | _ => false

def qLaunch (k : Nat) : Instr → Bool
  | .create j _ _ _ => j == k
  | .createRet j => j == k
  | .act (.launch j _ _ _) => j == k
  | _ => false

theorem exec_qJoin (P : Prog) (k : Nat) (s s' : State) (t : Nat) (i : Instr) (rest : List Instr)
    (h : exec P s t i rest = some s') :
    ((s'.th t).code.countP (qJoin k)) ≤ (i :: rest).countP (qJoin k) := by
  cases i
  case' act a => cases a
  case' joinAndFree l => cases l
  all_goals exec_split h
  all_goals (
    simp only [cont_th, pushW_th, pushLog_th, freeWrapper_th, upd_same, expand]
    first
    | (simp [List.countP_cons, List.countP_append, qJoin]; done)
    | ((repeat' split) <;> simp [List.countP_cons, List.countP_append, qJoin] <;> (try omega)))

theorem exec_qLaunch (P : Prog) (k : Nat) (s s' : State) (t : Nat) (i : Instr) (rest : List Instr)
    (h : exec P s t i rest = some s') :
    (s'.th t).code.any (qLaunch k) = true → (i :: rest).any (qLaunch k) = true := by
  cases i
  case' act a => cases a
  case' joinAndFree l => cases l
  all_goals exec_split h
  all_goals (
    simp only [cont_th, pushW_th, pushLog_th, freeWrapper_th, upd_same, expand]
    first
    | (simp [List.any_append, List.any_cons, qLaunch, -List.any_eq_true]; done)
    | ((repeat' split) <;> simp [List.any_append, List.any_cons, qLaunch, -List.any_eq_true] <;>
       (try (intro hh; first | exact hh | exact Or.inr hh | (rcases hh with hh | hh <;> simp [hh])))))

def isCR (k : Nat) : Instr → Bool
  | .createRet j => j == k
  | _ => false

def isJU (k : Nat) : Instr → Bool
  | .joinU j => j == k
  | _ => false

/-- a `createRet k` appears only through a successful `create k` (which makes `k` a created thread, `k ≠ 0`) -/
theorem exec_isCR (P : Prog) (k : Nat) (s s' : State) (t : Nat) (i : Instr) (rest : List Instr)
    (h : exec P s t i rest = some s') :
    (s'.th t).code.any (isCR k) = true →
      (i :: rest).any (isCR k) = true ∨ ((s'.th k).status = .created ∧ k ≠ 0) := by
  cases i
  case' act a => cases a
  case' joinAndFree l => cases l
  all_goals exec_split h
  all_goals (
    simp only [cont_th, pushW_th, pushLog_th, freeWrapper_th, upd_same, expand]
    first
    | (simp [List.any_append, List.any_cons, isCR, -List.any_eq_true]; done)
    | ((repeat' split) <;> simp [List.any_append, List.any_cons, isCR, -List.any_eq_true] <;>
       (try (intro hh; first | exact Or.inl hh | exact Or.inl (Or.inr hh)))))
  all_goals (
    rename_i hg
    simp only [not_or, Decidable.not_not, Nat.not_le] at hg
    obtain ⟨_, hk0, _, htk⟩ := hg
    intro hh
    rcases hh with rfl | hh
    · exact Or.inr ⟨by simp [upd_apply, Ne.symm htk], hk0⟩
    · exact Or.inl hh)

theorem exec_hstate_joinable (P : Prog) (k : Nat) (s s' : State) (t : Nat) (i : Instr) (rest : List Instr)
    (h : exec P s t i rest = some s') :
    s'.hstate k = .joinable → s.hstate k = .joinable ∨ i = .createRet k := by
  cases i
  case' act a => cases a
  case' joinAndFree l => cases l
  all_goals exec_split h
  all_goals (
    simp only [cont_hstate, pushW_hstate, pushLog_hstate, freeWrapper_hstate]
    first
    | (intro hh; exact Or.inl hh)
    | (simp only [upd_apply]; (repeat' split) <;> simp_all))

/-- a `joinU k` appears only by expanding `join k` while the handle is joinable -/
theorem exec_isJU (P : Prog) (k : Nat) (s s' : State) (t : Nat) (i : Instr) (rest : List Instr)
    (h : exec P s t i rest = some s') :
    (s'.th t).code.any (isJU k) = true → (i :: rest).any (isJU k) = true ∨ s.hstate k = .joinable := by
  cases i
  case' act a => cases a
  case' joinAndFree l => cases l
  all_goals exec_split h
  all_goals (
    simp only [cont_th, pushW_th, pushLog_th, freeWrapper_th, upd_same, expand]
    first
    | (simp [List.any_append, List.any_cons, isJU, -List.any_eq_true]; done)
    | ((repeat' split) <;> simp [List.any_append, List.any_cons, isJU, -List.any_eq_true] <;>
       (try (intro hh; first | exact Or.inl hh | exact Or.inl (Or.inr hh) | (rcases hh with rfl | hh <;> simp_all)))))

theorem exec_ord (P : Prog) (s s' : State) (t : Nat) (i : Instr) (rest : List Instr)
    (h : exec P s t i rest = some s') :
    (s'.th t).ord = (s.th t).ord ∧ (s'.nextOrd = s.nextOrd ∨ s'.nextOrd = s.nextOrd + 1) := by
  cases i
  case' act a => cases a
  case' joinAndFree l => cases l
  all_goals exec_split h
  all_goals (first
    | (simp [cont, pushW, pushLog, freeWrapper]; done)
    | (simp [cont, pushW, pushLog, freeWrapper, upd_apply]; first | assumption | (split <;> simp_all) | (intro hh; simp_all)))

/-! ### the static side: each slot has one launcher, which is also its only joiner -/

theorem flatMap_len_ge {α : Type} (f : Nat → List α) (l : List Nat) (j : Nat) (hj : j ∈ l) :
    (f j).length ≤ (l.flatMap f).length := by
  induction l with
  | nil => cases hj
  | cons a r ih =>
    simp only [List.flatMap_cons, List.length_append]
    rcases List.mem_cons.mp hj with rfl | h
    · omega
    · have := ih h; omega

theorem flatMap_len_ge2 {α : Type} (f : Nat → List α) (l : List Nat) (hl : l.Nodup) (j1 j2 : Nat)
    (h1 : j1 ∈ l) (h2 : j2 ∈ l) (hne : j1 ≠ j2) : (f j1).length + (f j2).length ≤ (l.flatMap f).length := by
  induction l with
  | nil => cases h1
  | cons a r ih =>
    simp only [List.flatMap_cons, List.length_append]
    have hnd := List.nodup_cons.mp hl
    rcases List.mem_cons.mp h1 with rfl | h1' <;> rcases List.mem_cons.mp h2 with rfl | h2'
    · exact absurd rfl hne
    · have := flatMap_len_ge f r j2 h2'; omega
    · have := flatMap_len_ge f r j1 h1'; omega
    · have := ih hnd.2 h1' h2'; omega

def isLaunchOf (k : Nat) : Action → Bool
  | .launch k' _ _ _ => k' == k
  | _ => false

theorem launchIn_filter (P : Prog) (j k : Nat) (h : LaunchIn P j k) :
    1 ≤ ((P.body j).filter (isLaunchOf k)).length := by
  obtain ⟨pin, nf, nm, hm⟩ := h
  have : Action.launch k pin nf nm ∈ (P.body j).filter (isLaunchOf k) := by
    simp [List.mem_filter, hm, isLaunchOf]
  exact List.length_pos_of_mem this

theorem launcher_unique (P : Prog) (wf : WFProgress P) (j1 j2 k : Nat) (h1 : j1 < P.n) (h2 : j2 < P.n)
    (l1 : LaunchIn P j1 k) (l2 : LaunchIn P j2 k) : j1 = j2 := by
  by_cases hne : j1 = j2
  · exact hne
  · exfalso
    have := flatMap_len_ge2 (fun j => (P.body j).filter (isLaunchOf k)) (List.range P.n) List.nodup_range j1 j2
      (List.mem_range.mpr h1) (List.mem_range.mpr h2) hne
    have a := launchIn_filter P j1 k l1
    have b := launchIn_filter P j2 k l2
    have c : ((List.range P.n).flatMap (fun j => (P.body j).filter (isLaunchOf k))).length ≤ 1 := wf.launchOnce k
    omega

theorem countP_qJoin_map (k : Nat) (l : List Action) :
    (l.map Instr.act).countP (qJoin k) = (l.filter (· == Action.join k)).length := by
  induction l with
  | nil => rfl
  | cons a r ih =>
    simp only [List.map_cons, List.countP_cons, List.filter_cons, ih]
    cases a <;> simp [qJoin] <;> (split <;> simp_all [eq_comm])

theorem join_body_le_one (P : Prog) (wf : WFProgress P) (j k : Nat) (hj : j < P.n) :
    ((P.body j).filter (· == Action.join k)).length ≤ 1 := by
  have := flatMap_len_ge (fun j => (P.body j).filter (· == Action.join k)) (List.range P.n) j (List.mem_range.mpr hj)
  have := wf.joinOnce k
  omega

end AwsVerif.Threads
