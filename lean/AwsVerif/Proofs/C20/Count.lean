import AwsVerif.Proofs.C20.Frame
/-! The accounting invariant behind `s_unjoined_thread_count` (c20_managed_inv, c20_join_all). -/
namespace AwsVerif.Threads

def sumTo : Nat → (Nat → Nat) → Nat
  | 0, _ => 0
  | n + 1, f => sumTo n f + f n

theorem sumTo_congr (n : Nat) (f g : Nat → Nat) (h : ∀ j, j < n → f j = g j) : sumTo n f = sumTo n g := by
  induction n with
  | zero => rfl
  | succ n ih =>
    simp only [sumTo]
    rw [ih (fun j hj => h j (Nat.lt_succ_of_lt hj)), h n (Nat.lt_succ_self n)]

/-- changing the function at one index `t < n` -/
theorem sumTo_upd1 (n t : Nat) (f g : Nat → Nat) (ht : t < n) (h : ∀ j, j < n → j ≠ t → g j = f j) :
    sumTo n g + f t = sumTo n f + g t := by
  induction n with
  | zero => omega
  | succ n ih =>
    simp only [sumTo]
    by_cases htn : t = n
    · subst htn
      have := sumTo_congr t g f (fun j hj => h j (Nat.lt_succ_of_lt hj) (Nat.ne_of_lt hj))
      omega
    · have h1 := ih (by omega) (fun j hj hne => h j (Nat.lt_succ_of_lt hj) hne)
      have h2 := h n (Nat.lt_succ_self n) (fun e => htn e.symm)
      omega

/-- changing the function at two distinct indices -/
theorem sumTo_upd2 (n t k : Nat) (f g : Nat → Nat) (ht : t < n) (hk : k < n) (hne : k ≠ t)
    (h : ∀ j, j < n → j ≠ t → j ≠ k → g j = f j) :
    sumTo n g + f t + f k = sumTo n f + g t + g k := by
  let m : Nat → Nat := fun j => if j = k then g k else f j
  have h1 : sumTo n m + f k = sumTo n f + m k :=
    sumTo_upd1 n k f m hk (fun j _ hj => by simp [m, hj])
  have h2 : sumTo n g + m t = sumTo n m + g t :=
    sumTo_upd1 n t m g ht (fun j hj hjt => by
      by_cases hjk : j = k
      · subst hjk; simp [m]
      · simp [m, hjk]; exact h j hj hjt hjk)
  have h3 : m k = g k := by simp [m]
  have h4 : m t = f t := by simp [m, Ne.symm hne]
  omega

theorem sumTo_le (n : Nat) (f g : Nat → Nat) (h : ∀ j, j < n → f j ≤ g j) : sumTo n f ≤ sumTo n g := by
  induction n with
  | zero => simp [sumTo]
  | succ n ih =>
    simp only [sumTo]
    have := ih (fun j hj => h j (Nat.lt_succ_of_lt hj))
    have := h n (Nat.lt_succ_self n)
    omega

theorem sumTo_lt (n t : Nat) (f g : Nat → Nat) (ht : t < n) (h : ∀ j, j < n → f j ≤ g j) (hs : f t + 1 ≤ g t) :
    sumTo n f + 1 ≤ sumTo n g := by
  induction n with
  | zero => omega
  | succ n ih =>
    simp only [sumTo]
    by_cases htn : t = n
    · subst htn
      have := sumTo_le t f g (fun j hj => h j (Nat.lt_succ_of_lt hj))
      omega
    · have := ih (by omega) (fun j hj => h j (Nat.lt_succ_of_lt hj))
      have := h n (Nat.lt_succ_self n)
      omega

theorem sumTo_add (n : Nat) (f g : Nat → Nat) : sumTo n (fun k => f k + g k) = sumTo n f + sumTo n g := by
  induction n with
  | zero => rfl
  | succ n ih => simp only [sumTo, ih]; omega

theorem sumTo_ltn (n t d : Nat) (f g : Nat → Nat) (ht : t < n) (h : ∀ j, j < n → f j ≤ g j) (hs : f t + d ≤ g t) :
    sumTo n f + d ≤ sumTo n g := by
  induction n with
  | zero => omega
  | succ n ih =>
    simp only [sumTo]
    by_cases htn : t = n
    · subst htn
      have := sumTo_le t f g (fun j hj => h j (Nat.lt_succ_of_lt hj))
      omega
    · have := ih (by omega) (fun j hj => h j (Nat.lt_succ_of_lt hj))
      have := h n (Nat.lt_succ_self n)
      omega

def iPlus (P : Prog) : Instr → Nat
  | .decCount => 1
  | .create k _ _ _ => if P.managed k then 1 else 0
  | .act (.launch k _ _ _) => if P.managed k then 1 else 0
  | .joinAndFree l => l.length
  | _ => 0

def iMinus (P : Prog) : Instr → Nat
  | .incCount => 1
  | .joinM _ => 1
  | .act (.launch k _ _ _) => if P.managed k then 1 else 0
  | .joinAndFree l => l.length
  | _ => 0

def cPlus (P : Prog) : List Instr → Nat
  | [] => 0
  | i :: r => iPlus P i + cPlus P r

def cMinus (P : Prog) : List Instr → Nat
  | [] => 0
  | i :: r => iMinus P i + cMinus P r

@[simp] theorem cPlus_append (P : Prog) (a b : List Instr) : cPlus P (a ++ b) = cPlus P a + cPlus P b := by
  induction a with
  | nil => simp [cPlus]
  | cons i r ih => simp [cPlus, ih]; omega
@[simp] theorem cMinus_append (P : Prog) (a b : List Instr) : cMinus P (a ++ b) = cMinus P a + cMinus P b := by
  induction a with
  | nil => simp [cMinus]
  | cons i r ih => simp [cMinus, ih]; omega

/-- every suffix of the code has at least as many pending decrements / managed creates as pending
    increments / managed joins: a decrement is always preceded by its increment -/
def sufOk (P : Prog) : List Instr → Prop
  | [] => True
  | i :: r => cMinus P (i :: r) ≤ cPlus P (i :: r) ∧ sufOk P r

theorem sufOk_le (P : Prog) (c : List Instr) (h : sufOk P c) : cMinus P c ≤ cPlus P c := by
  cases c with
  | nil => simp [cMinus, cPlus]
  | cons i r => exact h.1

theorem sufOk_tail (P : Prog) (i : Instr) (r : List Instr) (h : sufOk P (i :: r)) : sufOk P r := h.2

/-- prepending code whose own suffixes are fine in front of fine code -/
theorem sufOk_append (P : Prog) (a b : List Instr) (ha : ∀ x y, a = x ++ y → cMinus P y ≤ cPlus P y) (hb : sufOk P b) :
    sufOk P (a ++ b) := by
  induction a with
  | nil => simpa using hb
  | cons i r ih =>
    refine ⟨?_, ih (fun x y h => ha (i :: x) y (by simp [h]))⟩
    have h1 := ha [] (i :: r) rfl
    have h2 := sufOk_le P b hb
    change cMinus P ((i :: r) ++ b) ≤ cPlus P ((i :: r) ++ b)
    rw [cPlus_append, cMinus_append]
    omega

def isLive (st : Status) : Bool := decide (1 ≤ st.rank ∧ st.rank ≤ 6)

def wPlus (P : Prog) (k : Nat) (th : Th) : Nat := cPlus P th.code + (if P.managed k && isLive th.status then 1 else 0)
def wMinus (P : Prog) (th : Th) : Nat := cMinus P th.code

/-- `count` + pending increments/joins = live managed threads + pending decrements/creates -/
def CountEq (P : Prog) (s : State) : Prop :=
  s.count + sumTo P.n (fun k => wMinus P (s.th k)) = sumTo P.n (fun k => wPlus P k (s.th k))

theorem countEq_upd1 (P : Prog) (s s' : State) (t : Nat) (x : Th) (hE : CountEq P s) (ht : t < P.n)
    (hth : s'.th = upd s.th t x)
    (hloc : s'.count + wMinus P x + wPlus P t (s.th t) = s.count + wMinus P (s.th t) + wPlus P t x) : CountEq P s' := by
  unfold CountEq at *
  have h1 := sumTo_upd1 P.n t (fun k => wMinus P (s.th k)) (fun k => wMinus P (s'.th k)) ht
    (fun j _ hj => by simp [hth, hj])
  have h2 := sumTo_upd1 P.n t (fun k => wPlus P k (s.th k)) (fun k => wPlus P k (s'.th k)) ht
    (fun j _ hj => by simp [hth, hj])
  simp only [hth, upd_same] at h1 h2 ⊢
  omega

theorem countEq_upd2 (P : Prog) (s s' : State) (t k : Nat) (x y : Th) (hE : CountEq P s) (ht : t < P.n) (hk : k < P.n)
    (hne : k ≠ t) (hth : s'.th = upd (upd s.th k y) t x)
    (hloc : s'.count + wMinus P x + wMinus P y + wPlus P t (s.th t) + wPlus P k (s.th k) =
            s.count + wMinus P (s.th t) + wMinus P (s.th k) + wPlus P t x + wPlus P k y) : CountEq P s' := by
  unfold CountEq at *
  have h1 := sumTo_upd2 P.n t k (fun j => wMinus P (s.th j)) (fun j => wMinus P (s'.th j)) ht hk hne
    (fun j _ hj hjk => by simp [hth, hj, hjk])
  have h2 := sumTo_upd2 P.n t k (fun j => wPlus P j (s.th j)) (fun j => wPlus P j (s'.th j)) ht hk hne
    (fun j _ hj hjk => by simp [hth, hj, hjk])
  simp only [hth, upd_same, upd_other _ _ _ _ hne] at h1 h2 ⊢
  omega

end AwsVerif.Threads
