import AwsVerif.Proofs.C20.CountStep
/-! The hand-over instruction `pjaSwapPush` occurs exactly once, in the code of a managed thread whose
at-exit loop is over and which has not yet enqueued itself. -/
namespace AwsVerif.Threads

def nPja : List Instr → Nat
  | [] => 0
  | .pjaSwapPush :: r => 1 + nPja r
  | _ :: r => nPja r

@[simp] theorem nPja_append (a b : List Instr) : nPja (a ++ b) = nPja a + nPja b := by
  induction a with
  | nil => simp [nPja]
  | cons i r ih => cases i <;> simp [nPja, ih] <;> omega

theorem nPja_map_act (l : List Action) : nPja (l.map Instr.act) = 0 := by
  induction l with
  | nil => rfl
  | cons a r ih => simp [nPja, ih]

def pjaWant (P : Prog) (k : Nat) (st : Status) : Nat := if P.managed k = true ∧ st = .atexitDone then 1 else 0

def PjaInv (P : Prog) (s : State) : Prop := ∀ k, nPja (s.th k).code = pjaWant P k (s.th k).status

theorem exec_pja_code (P : Prog) (s s' : State) (t : Nat) (i : Instr) (rest : List Instr)
    (h : exec P s t i rest = some s') :
    nPja (s'.th t).code + (if i = .pjaSwapPush then 1 else 0) = nPja (i :: rest) := by
  cases i
  case' act a => cases a
  case' joinAndFree l => cases l
  all_goals exec_split h
  all_goals (
    simp only [cont_th, pushW_th, pushLog_th, freeWrapper_th, upd_same, expand, nPja_append]
    first
    | (simp [nPja]; done)
    | (simp [nPja]; (repeat' split) <;> (try simp [nPja]) <;> (try omega)))

theorem exec_status (P : Prog) (s s' : State) (t : Nat) (i : Instr) (rest : List Instr)
    (h : exec P s t i rest = some s') :
    (s'.th t).status = if i = .pjaSwapPush ∧ (s.th t).status = .atexitDone then .handedOver else (s.th t).status := by
  cases i
  case' act a => cases a
  case' joinAndFree l => cases l
  all_goals exec_split h
  all_goals (
    simp only [cont_th, pushW_th, pushLog_th, freeWrapper_th, upd_same]
    first
    | (simp; done)
    | (simp [upd_apply]; first | (split <;> simp_all) | (intro hh; simp_all)))

theorem exec_pja (P : Prog) (s s' : State) (t : Nat) (i : Instr) (rest : List Instr)
    (hc : (s.th t).code = i :: rest) (hi : nPja (s.th t).code = pjaWant P t (s.th t).status)
    (h : exec P s t i rest = some s') : nPja (s'.th t).code = pjaWant P t (s'.th t).status := by
  rw [hc] at hi
  have h1 := exec_pja_code P s s' t i rest h
  have h2 := exec_status P s s' t i rest h
  rw [h2]
  by_cases hp : i = .pjaSwapPush
  · subst hp
    simp only [true_and, if_true] at h1 ⊢
    unfold pjaWant at hi ⊢
    by_cases hs : (s.th t).status = .atexitDone
    · simp [hs, nPja] at hi h1 ⊢; split at hi <;> omega
    · simp [hs, nPja] at hi h1 ⊢
  · simp only [hp, false_and, if_false] at h1 ⊢
    omega

theorem pja_other (P : Prog) {s : State} {k : Nat} {a b : Th} (h : OtherRel s k a b)
    (hi : nPja a.code = pjaWant P k a.status) : nPja b.code = pjaWant P k b.status := by
  rcases h with rfl | rfl | ⟨_, _, _, rfl⟩ | ⟨hs, rfl⟩
  · exact hi
  · exact hi
  · simp [nPja, pjaWant]
  · simp only [hs, pjaWant] at hi ⊢; simpa using hi

theorem pjaInv_thr (P : Prog) (s s' : State) (t : Nat) (h : step P s t = some s') (hi : PjaInv P s) : PjaInv P s' := by
  intro k
  by_cases hk : k = t
  · subst hk
    rcases step_cases P s s' k h with ⟨hs, rfl⟩ | ⟨hs, _, hc, rfl⟩ | ⟨hs, _, hc, rfl⟩ | ⟨hs, rfl⟩ | ⟨hs, hc, rfl⟩ | ⟨hs, i, rest, hc, he⟩
    · simp [nPja_map_act, pjaWant]
    · simp [hc, nPja, pjaWant]
    · simp [hc, nPja, pjaWant]
    · cases hch : (s.th k).chain with
      | nil =>
        rw [atexitStep_nil P s k hch]
        simp only [upd_same, pjaWant]
        by_cases hm : P.managed k = true <;> simp [hm, handOverCode, nPja]
      | cons c cs =>
        rw [atexitStep_cons P s k c cs hch]
        have := hi k
        simpa [hs, pjaWant] using this
    · simp [hc, nPja, pjaWant]
    · exact exec_pja P s s' k i rest hc (hi k) he
  · exact pja_other P (step_other P s s' t h k hk) (hi k)

theorem pjaInv_reachable (P : Prog) (s : State) (h : Reachable P s) : PjaInv P s := by
  induction h with
  | init => intro k; simp only [init]; split <;> simp [nPja, pjaWant]
  | step l _ hs ih =>
    cases l with
    | thr t => exact pjaInv_thr P _ _ t hs ih
    | tick d => simp only [stepL, Option.some.injEq] at hs; subst hs; exact ih
    | spur t =>
      simp only [stepL] at hs
      split at hs
      · simp only [Option.some.injEq] at hs; subst hs
        intro k
        by_cases hk : k = t
        · subst hk; simpa using ih k
        · simpa [upd_apply, hk] using ih k
      · simp at hs

end AwsVerif.Threads
