import AwsVerif.Proofs.C20.Own
/-! Heap accounting for `struct thread_wrapper` blocks (c20_no_leak). -/
namespace AwsVerif.Threads

def aPlus : Instr → Nat
  | .freeW _ nm => 1 + nm.toNat
  | .create _ _ _ nm => 1 + nm.toNat
  | .act (.launch _ _ _ nm) => 1 + nm.toNat
  | .joinAndFree l => l.length
  | _ => 0

def aMinus : Instr → Nat
  | .allocW _ nm => 1 + nm.toNat
  | .joinM _ => 1
  | .act (.launch _ _ _ nm) => 1 + nm.toNat
  | .joinAndFree l => l.length
  | _ => 0

def wsum (w : Instr → Nat) : List Instr → Nat
  | [] => 0
  | i :: r => w i + wsum w r

@[simp] theorem wsum_append (w : Instr → Nat) (a b : List Instr) : wsum w (a ++ b) = wsum w a + wsum w b := by
  induction a with
  | nil => simp [wsum]
  | cons i r ih => simp [wsum, ih]; omega

def aSuf : List Instr → Prop
  | [] => True
  | i :: r => wsum aMinus (i :: r) ≤ wsum aPlus (i :: r) ∧ aSuf r

theorem aSuf_le (c : List Instr) (h : aSuf c) : wsum aMinus c ≤ wsum aPlus c := by
  cases c with
  | nil => simp [wsum]
  | cons i r => exact h.1

theorem wsum_map_act (l : List Action) : wsum aPlus (l.map Instr.act) = wsum aMinus (l.map Instr.act) := by
  induction l with
  | nil => rfl
  | cons a r ih => cases a <;> simp [wsum, aPlus, aMinus, ih]

theorem aSuf_map_act (l : List Action) : aSuf (l.map Instr.act) := by
  induction l with
  | nil => trivial
  | cons a r ih =>
    refine ⟨?_, ih⟩
    have := wsum_map_act (a :: r)
    simp only [List.map_cons] at this
    omega

/-- does slot `k` currently own a wrapper block because of its status alone? -/
def holds (P : Prog) (k : Nat) (st : Status) : Nat :=
  if k = 0 then 0   -- the process main thread has no wrapper
  else if P.managed k then (if isLive st then 1 else 0) else (if st = .created ∨ st = .running then 1 else 0)

/-- a created thread that has not started yet still has its name string attached to the wrapper -/
def nameHeld (th : Th) : Nat := th.named.toNat
def wwPlus (P : Prog) (k : Nat) (th : Th) : Nat := wsum aPlus th.code + holds P k th.status + nameHeld th
def wwMinus (th : Th) : Nat := wsum aMinus th.code

def WEq (P : Prog) (s : State) : Prop :=
  s.wLive + sumTo P.n (fun k => wwMinus (s.th k)) = sumTo P.n (fun k => wwPlus P k (s.th k))

theorem wEq_upd1 (P : Prog) (s s' : State) (t : Nat) (x : Th) (hE : WEq P s) (ht : t < P.n)
    (hth : s'.th = upd s.th t x)
    (hloc : s'.wLive + wwMinus x + wwPlus P t (s.th t) = s.wLive + wwMinus (s.th t) + wwPlus P t x) : WEq P s' := by
  unfold WEq at *
  have h1 := sumTo_upd1 P.n t (fun k => wwMinus (s.th k)) (fun k => wwMinus (s'.th k)) ht
    (fun j _ hj => by simp [hth, hj])
  have h2 := sumTo_upd1 P.n t (fun k => wwPlus P k (s.th k)) (fun k => wwPlus P k (s'.th k)) ht
    (fun j _ hj => by simp [hth, hj])
  simp only [hth, upd_same] at h1 h2 ⊢
  omega

theorem wEq_upd2 (P : Prog) (s s' : State) (t k : Nat) (x y : Th) (hE : WEq P s) (ht : t < P.n) (hk : k < P.n)
    (hne : k ≠ t) (hth : s'.th = upd (upd s.th k y) t x)
    (hloc : s'.wLive + wwMinus x + wwMinus y + wwPlus P t (s.th t) + wwPlus P k (s.th k) =
            s.wLive + wwMinus (s.th t) + wwMinus (s.th k) + wwPlus P t x + wwPlus P k y) : WEq P s' := by
  unfold WEq at *
  have h1 := sumTo_upd2 P.n t k (fun j => wwMinus (s.th j)) (fun j => wwMinus (s'.th j)) ht hk hne
    (fun j _ hj hjk => by simp [hth, hj, hjk])
  have h2 := sumTo_upd2 P.n t k (fun j => wwPlus P j (s.th j)) (fun j => wwPlus P j (s'.th j)) ht hk hne
    (fun j _ hj hjk => by simp [hth, hj, hjk])
  simp only [hth, upd_same, upd_other _ _ _ _ hne] at h1 h2 ⊢
  omega

theorem exec_aSuf (P : Prog) (s s' : State) (t : Nat) (i : Instr) (rest : List Instr)
    (hsuf : aSuf (i :: rest)) (h : exec P s t i rest = some s') : aSuf (s'.th t).code := by
  have h1 := hsuf.1
  have h2 := hsuf.2
  have h3 := aSuf_le rest h2
  cases i
  case' act a => cases a
  case' joinAndFree l => cases l
  all_goals exec_split h
  all_goals (
    simp only [cont_th, pushW_th, pushLog_th, freeWrapper_th, upd_same, expand]
    first
    | exact h2
    | ((repeat' split) <;>
       simp [aSuf, wsum, aPlus, aMinus, *] at * <;> (try omega) <;> (try (refine ⟨?_, ?_⟩ <;> omega))))

/-- a pending free means a wrapper block is live -/
theorem wLive_pos (P : Prog) (s : State) (t : Nat) (k : Nat) (nm : Bool) (rest : List Instr) (ht : t < P.n)
    (hc : (s.th t).code = Instr.freeW k nm :: rest) (hsuf : ∀ j, aSuf (s.th j).code) (hE : WEq P s) :
    1 + nm.toNat ≤ s.wLive := by
  have h1 : sumTo P.n (fun j => wwMinus (s.th j)) + (1 + nm.toNat) ≤ sumTo P.n (fun j => wwPlus P j (s.th j)) := by
    refine sumTo_ltn P.n t (1 + nm.toNat) _ _ ht (fun j _ => ?_) ?_
    · have := aSuf_le _ (hsuf j); simp only [wwMinus, wwPlus]; omega
    · have h2 := hsuf t
      rw [hc] at h2
      have := aSuf_le _ h2.2
      simp only [wwMinus, wwPlus, hc, wsum, aMinus, aPlus]; omega
  unfold WEq at hE
  omega

@[simp] theorem holds_notCreated (P : Prog) (k : Nat) : holds P k .notCreated = 0 := by
  unfold holds; split <;> simp
theorem holds_created (P : Prog) (k : Nat) (hk : k ≠ 0) : holds P k .created = 1 := by
  unfold holds; simp [hk]
@[simp] theorem holds_joined (P : Prog) (k : Nat) : holds P k .joined = 0 := by
  unfold holds; split <;> simp
theorem holds_exited (P : Prog) (k : Nat) (hk : k ≠ 0) : holds P k .exited = if P.managed k then 1 else 0 := by
  unfold holds; simp [hk]

theorem exec_wEq (P : Prog) (s s' : State) (t : Nat) (i : Instr) (rest : List Instr)
    (hc : (s.th t).code = i :: rest) (ht : t < P.n)
    (hbig : ∀ k, P.n ≤ k → (s.th k).status = .notCreated)
    (hnc : ∀ k, (s.th k).status = .notCreated → (s.th k).code = [])
    (hm : Memb P s) (hsufAll : ∀ k, aSuf (s.th k).code) (hm0 : P.managed 0 = false)
    (hcopy : ∀ k, Instr.joinM k ∈ (s.th t).code → (s.th k).copyId = some k)
    (hnm : ∀ k, (s.th k).named = true → (s.th k).status = .created)
    (h : exec P s t i rest = some s') (hE : WEq P s) : WEq P s' := by
  have mjt := hm.mj t; have hut := hm.hu t; have pjt := hm.pj t
  rw [hc] at mjt hut pjt
  have hlt : ∀ k, (s.th k).status ≠ .notCreated → k < P.n := by
    intro k hk
    by_cases hkn : k < P.n
    · exact hkn
    · exact absurd (hbig k (by omega)) hk
  cases i
  case' act a => cases a
  case' joinAndFree l => cases l
  case freeW k nm =>
    have hpos := wLive_pos P s t k nm rest ht hc hsufAll hE
    exec_split h
    refine wEq_upd1 P s _ t _ hE ht rfl ?_
    simp only [wwPlus, wwMinus, nameHeld, hc, wsum, aPlus, aMinus, cont_wLive, freeWrapper_wLive]
    omega
  case pjaSwapPush =>
    have hmt := pjt (by simp)
    exec_split h
    all_goals (
      refine wEq_upd1 P s _ t _ hE ht rfl ?_
      simp [wwPlus, wwMinus, nameHeld, hc, wsum, aPlus, aMinus, holds, hmt, *]
      try omega)
  case signal =>
    exec_split h
    · rename_i j hj
      have hjn := pickWaiter_lt s P.n j hj
      by_cases hjt : j = t
      · subst hjt
        refine wEq_upd1 P s _ j { s.th j with woken := true, code := rest } hE ht (by simp [upd_idem]) ?_
        simp [wwPlus, wwMinus, nameHeld, hc, wsum, aPlus, aMinus]
      · refine wEq_upd2 P s _ t j _ _ hE ht hjn hjt rfl ?_
        simp [wwPlus, wwMinus, nameHeld, hc, wsum, aPlus, aMinus, Ne.symm hjt]
    · refine wEq_upd1 P s _ t _ hE ht rfl ?_
      simp [wwPlus, wwMinus, nameHeld, hc, wsum, aPlus, aMinus]
  case create k pin nf nm =>
    simp only [exec] at h
    split at h
    · simp only [Option.some.injEq] at h; subst h
      refine wEq_upd1 P s _ t _ hE ht rfl ?_
      simp only [wwPlus, wwMinus, nameHeld, hc, wsum, aPlus, aMinus, wsum_append, cont_wLive, pushW_wLive]
      by_cases hmk : P.managed k = true <;> by_cases hp : pin = true <;>
        simp [hmk, hp, wsum, aPlus, aMinus] <;> omega
    · split at h
      · simp only [Option.some.injEq] at h; subst h
        refine wEq_upd1 P s _ t _ hE ht rfl ?_
        simp only [wwPlus, wwMinus, nameHeld, hc, wsum, aPlus, aMinus, wsum_append, cont_wLive]
        by_cases hmk : P.managed k = true <;> by_cases hp : pin = true <;>
          simp [hmk, hp, wsum, aPlus, aMinus] <;> omega
      · rename_i hg
        simp only [not_or, Decidable.not_not, Nat.not_le] at hg
        obtain ⟨hs0, hkz, hkn, htk⟩ := hg
        simp only [Option.some.injEq] at h; subst h
        refine wEq_upd2 P s _ t k _ _ hE ht hkn (Ne.symm htk) rfl ?_
        have hk0 := hnc k hs0
        have hk1 : (s.th k).named = false := by
          cases hh : (s.th k).named
          · rfl
          · have := hnm k hh; rw [hs0] at this; cases this
        simp [wwPlus, wwMinus, nameHeld, hc, hk0, hk1, hs0, wsum, aPlus, aMinus, holds_created P k hkz]
        omega
  case joinM k =>
    simp only [exec, hcopy k (by rw [hc]; simp), if_true] at h
    split at h
    · rename_i hg
      obtain ⟨hs0, htk⟩ := hg
      have hkn := hlt k (by rw [hs0]; simp)
      have hmk := mjt k (by simp)
      have hkz : k ≠ 0 := by intro e; subst e; simp [hm0] at hmk
      simp only [Option.some.injEq] at h; subst h
      refine wEq_upd2 P s _ t k _ _ hE ht hkn (Ne.symm htk) rfl ?_
      simp [wwPlus, wwMinus, nameHeld, hc, hs0, hmk, wsum, aPlus, aMinus, htk, holds_exited P k hkz]
      omega
    · simp at h
  case joinU k =>
    simp only [exec] at h
    split at h
    · simp only [Option.some.injEq] at h; subst h
      refine wEq_upd1 P s _ t _ hE ht rfl ?_
      simp [wwPlus, wwMinus, nameHeld, hc, wsum, aPlus, aMinus]
    · split at h
      · simp only [Option.some.injEq] at h; subst h
        refine wEq_upd1 P s _ t _ hE ht rfl ?_
        simp [wwPlus, wwMinus, nameHeld, hc, wsum, aPlus, aMinus]
      · split at h
        · rename_i htk _ hs0
          have hkn := hlt k (by rw [hs0]; simp)
          have hmk := hut k (by simp)
          simp only [Option.some.injEq] at h; subst h
          refine wEq_upd2 P s _ t k _ _ hE ht hkn (Ne.symm htk) rfl ?_
          simp [wwPlus, wwMinus, nameHeld, hc, hs0, hmk, wsum, aPlus, aMinus, htk, holds]
        · simp at h
  all_goals exec_split h
  all_goals (first
    | (refine wEq_upd1 P s _ t _ hE ht rfl ?_
       simp only [wwPlus, wwMinus, nameHeld, hc, wsum, aPlus, aMinus, expand, wsum_append, cont_wLive,
         pushW_wLive, pushLog_wLive, List.length_cons]
       all_goals ((repeat' split) <;> (try simp_all [wsum, aPlus, aMinus]) <;> omega))
    | skip)

end AwsVerif.Threads
