import AwsVerif.Proofs.C20.CountInv
namespace AwsVerif.Threads

/-- only thread `t`'s record changes (to `x`), nothing else the invariant looks at -/
theorem countInv_upd_self (P : Prog) (s s' : State) (t : Nat) (x : Th) (hi : CountInv P s) (ht : t < P.n)
    (hth : s'.th = upd s.th t x) (hcount : s'.count = s.count) (hpend : s'.pending = s.pending)
    (hhs : s'.hstate = s.hstate)
    (hst : x.status ≠ .notCreated)
    (hnc : (x.status = .created ∨ x.status = .funcDone) → x.code = [])
    (hW : wMinus P x + wPlus P t (s.th t) = wMinus P (s.th t) + wPlus P t x)
    (hsuf : sufOk P x.code)
    (hmem : ∀ i, i ∈ x.code → i ∈ (s.th t).code ∨ (∃ a, i = .act a) ∨ i = .lock ∨ (i = .pjaSwapPush ∧ P.managed t = true)) :
    CountInv P s' := by
  have hcode : ∀ k, k ≠ t → s'.th k = s.th k := by intro k hk; rw [hth]; simp [hk]
  have hself : s'.th t = x := by rw [hth]; simp
  refine ⟨fun k hk => ?_, fun k hk => ?_, ?_, fun k => ?_, ⟨fun j k hm => ?_, fun j l hm => ?_, ?_, fun j k hm => ?_, ?_, fun j hm => ?_⟩⟩
  · have : k ≠ t := by omega
    rw [hcode k this]; exact hi.big k hk
  · by_cases hkt : k = t
    · subst hkt; rw [hself] at hk ⊢
      rcases hk with hk | hk
      · exact absurd hk hst
      · exact hnc hk
    · rw [hcode k hkt] at hk ⊢; exact hi.nocode k hk
  · exact countEq_upd1 P s s' t x hi.eq ht hth (by rw [hcount]; omega)
  · by_cases hkt : k = t
    · subst hkt; rw [hself]; exact hsuf
    · rw [hcode k hkt]; exact hi.suf k
  · by_cases hjt : j = t
    · subst hjt; rw [hself] at hm
      rcases hmem _ hm with h1 | ⟨a, h1⟩ | h1 | ⟨h1, _⟩
      · exact hi.memb.mj j k h1
      all_goals cases h1
    · rw [hcode j hjt] at hm; exact hi.memb.mj j k hm
  · by_cases hjt : j = t
    · subst hjt; rw [hself] at hm
      rcases hmem _ hm with h1 | ⟨a, h1⟩ | h1 | ⟨h1, _⟩
      · exact hi.memb.mf j l h1
      all_goals cases h1
    · rw [hcode j hjt] at hm; exact hi.memb.mf j l hm
  · rw [hpend]; exact hi.memb.mp
  · by_cases hjt : j = t
    · subst hjt; rw [hself] at hm
      rcases hmem _ hm with h1 | ⟨a, h1⟩ | h1 | ⟨h1, _⟩
      · exact hi.memb.hu j k h1
      all_goals cases h1
    · rw [hcode j hjt] at hm; exact hi.memb.hu j k hm
  · rw [hhs]; exact hi.memb.hh
  · by_cases hjt : j = t
    · subst hjt; rw [hself] at hm
      rcases hmem _ hm with h1 | ⟨a, h1⟩ | h1 | ⟨_, h1⟩
      · exact hi.memb.pj j h1
      · cases h1
      · cases h1
      · exact h1
    · rw [hcode j hjt] at hm; exact hi.memb.pj j hm

theorem funcEndStep_count (P : Prog) (s : State) (t : Nat) : (funcEndStep P s t).count = s.count := by
  unfold funcEndStep; split <;> rfl
theorem funcEndStep_pending (P : Prog) (s : State) (t : Nat) : (funcEndStep P s t).pending = s.pending := by
  unfold funcEndStep; split <;> rfl
theorem funcEndStep_hstate (P : Prog) (s : State) (t : Nat) : (funcEndStep P s t).hstate = s.hstate := by
  unfold funcEndStep; split <;> rfl

theorem isLive_of_active (st : Status) (h : st = .running ∨ st = .atexitDone ∨ st = .handedOver) : isLive st = true := by
  rcases h with h | h | h <;> subst h <;> rfl

theorem countInv_thr (P : Prog) (s s' : State) (t : Nat) (h : step P s t = some s') (hr : RefInv s) (hi : CountInv P s) :
    CountInv P s' := by
  have hlt : ∀ k, (s.th k).status ≠ .notCreated → k < P.n := by
    intro k hk
    by_cases hkn : k < P.n
    · exact hkn
    · exact absurd (hi.big k (by omega)) hk
  rcases step_cases P s s' t h with ⟨hs, rfl⟩ | ⟨hs, _, hc, rfl⟩ | ⟨hs, _, hc, rfl⟩ | ⟨hs, rfl⟩ | ⟨hs, hc, rfl⟩ | ⟨hs, i, rest, hc, he⟩
  · -- start
    have ht := hlt t (by rw [hs]; simp)
    have hc0 := hi.nocode t (Or.inr (Or.inl hs))
    refine countInv_upd_self P s _ t _ hi ht (startStep_th P s t) rfl rfl rfl (by simp) (by simp) ?_
      (sufOk_map_act P _) ?_
    · simp [wMinus, wPlus, hc0, hs, cPlus, cMinus, cPlus_map_act]
    · intro i hm
      simp only [List.mem_map] at hm
      obtain ⟨a, _, rfl⟩ := hm
      exact Or.inr (Or.inl ⟨a, rfl⟩)
  · -- main exits
    have ht := hlt t (by rw [hs]; simp)
    refine countInv_upd_self P s _ t _ hi ht (exitStep_th s t) rfl rfl rfl (by simp) (by simp) ?_ (hi.suf t)
      (fun i hm => Or.inl hm)
    simp [wMinus, wPlus, hs]
  · -- function returns
    have ht := hlt t (by rw [hs]; simp)
    refine countInv_upd_self P s _ t _ hi ht (funcEndStep_th P s t) (funcEndStep_count P s t) (funcEndStep_pending P s t)
      (funcEndStep_hstate P s t) (by simp) (fun _ => hc) ?_ (hi.suf t) (fun i hm => Or.inl hm)
    simp [wMinus, wPlus, hs]
  · -- at-exit loop
    have ht := hlt t (by rw [hs]; simp)
    have hc0 := hi.nocode t (Or.inr (Or.inr hs))
    cases hch : (s.th t).chain with
    | nil =>
      rw [atexitStep_nil P s t hch]
      refine countInv_upd_self P s _ t _ hi ht rfl rfl rfl rfl (by simp) (by simp) ?_ ?_ ?_
      · simp only [wMinus, wPlus, hc0, hs]
        split <;> simp [handOverCode, cPlus, cMinus, iPlus, iMinus]
      · simp only; split <;> simp [handOverCode, sufOk, cPlus, cMinus, iPlus, iMinus]
      · intro i hm
        simp only at hm
        split at hm
        · rename_i hmg
          simp [handOverCode] at hm
          rcases hm with rfl | rfl
          · exact Or.inr (Or.inr (Or.inl rfl))
          · exact Or.inr (Or.inr (Or.inr ⟨rfl, hmg⟩))
        · cases hm
    | cons c cs =>
      rw [atexitStep_cons P s t c cs hch]
      refine countInv_upd_self P s _ t _ hi ht rfl rfl rfl rfl (by simp [hs]) (fun _ => hc0) ?_ (hi.suf t)
        (fun i hm => Or.inl hm)
      simp [wMinus, wPlus]
  · -- thread exits
    have ht := hlt t (by rcases hs with hs | hs <;> rw [hs] <;> simp)
    refine countInv_upd_self P s _ t _ hi ht (exitStep_th s t) rfl rfl rfl (by simp) (by simp) ?_ (hi.suf t)
      (fun i hm => Or.inl hm)
    have := isLive_of_active _ (Or.inr hs)
    simp [wMinus, wPlus, this]
  · -- a micro-instruction
    have hne : (s.th t).status ≠ .notCreated := by rcases hs with hs | hs | hs <;> rw [hs] <;> simp
    have ht := hlt t hne
    have oth := exec_other P s s' t i rest he
    have own := exec_own P s s' t i rest he
    have hsuf := hi.suf t
    rw [hc] at hsuf
    refine ⟨fun k hk => ?_, fun k hk => ?_, ?_, fun k => ?_, exec_memb P s s' t i rest hc he hi.memb⟩
    · by_cases h0 : (s'.th k).status = .notCreated
      · exact h0
      · have := exec_created_lt P s s' t i rest hne he k (hi.big k hk) h0
        omega
    · by_cases hkt : k = t
      · subst hkt
        rcases own.1 with h1 | ⟨_, h1⟩
        · rw [h1] at hk
          rcases hs with hs | hs | hs <;> rw [hs] at hk <;> simp at hk
        · rw [h1] at hk; simp at hk
      · rcases oth k hkt with h1 | h1 | ⟨_, _, _, h1⟩ | ⟨_, h1⟩
        · rw [h1] at hk ⊢; exact hi.nocode k hk
        · rw [h1] at hk ⊢; exact hi.nocode k hk
        · rw [h1]
        · rw [h1] at hk; simp at hk
    · exact exec_countEq P s s' t i rest hc ht hi.big (fun k hk => hi.nocode k (Or.inl hk)) hi.memb hi.suf
        (fun k hm => hr.copy k (hr.refs.mj t k hm)) he hi.eq
    · by_cases hkt : k = t
      · subst hkt; exact exec_sufOk P s s' k i rest hsuf he
      · rcases otherRel_code (oth k hkt) with h1 | h1 <;> rw [h1]
        · exact hi.suf k
        · trivial

theorem countInv_congr (P : Prog) (s s' : State) (hi : CountInv P s)
    (hth : ∀ k, (s'.th k).code = (s.th k).code ∧ (s'.th k).status = (s.th k).status)
    (hcount : s'.count = s.count) (hpend : s'.pending = s.pending) (hhs : s'.hstate = s.hstate) : CountInv P s' := by
  refine ⟨fun k hk => ?_, fun k hk => ?_, ?_, fun k => ?_, ⟨fun j k hm => ?_, fun j l hm => ?_, ?_, fun j k hm => ?_, ?_, fun j hm => ?_⟩⟩
  · rw [(hth k).2]; exact hi.big k hk
  · rw [(hth k).2] at hk; rw [(hth k).1]; exact hi.nocode k hk
  · unfold CountEq
    rw [hcount, sumTo_congr P.n _ (fun k => wMinus P (s.th k)) (fun j _ => by simp [wMinus, (hth j).1]),
      sumTo_congr P.n (fun k => wPlus P k (s'.th k)) (fun k => wPlus P k (s.th k))
        (fun j _ => by simp [wPlus, (hth j).1, (hth j).2])]
    exact hi.eq
  · rw [(hth k).1]; exact hi.suf k
  · rw [(hth j).1] at hm; exact hi.memb.mj j k hm
  · rw [(hth j).1] at hm; exact hi.memb.mf j l hm
  · rw [hpend]; exact hi.memb.mp
  · rw [(hth j).1] at hm; exact hi.memb.hu j k hm
  · rw [hhs]; exact hi.memb.hh
  · rw [(hth j).1] at hm; exact hi.memb.pj j hm

theorem countInv_step (P : Prog) (s s' : State) (l : Label) (h : stepL P s l = some s') (hr : RefInv s) (hi : CountInv P s) :
    CountInv P s' := by
  cases l with
  | thr t => exact countInv_thr P s s' t h hr hi
  | tick d =>
    simp only [stepL, Option.some.injEq] at h; subst h
    exact countInv_congr P s _ hi (fun k => ⟨rfl, rfl⟩) rfl rfl rfl
  | spur t =>
    simp only [stepL] at h
    split at h
    · simp only [Option.some.injEq] at h; subst h
      refine countInv_congr P s _ hi (fun k => ?_) rfl rfl rfl
      by_cases hk : k = t
      · subst hk; simp
      · simp [upd_apply, hk]
    · simp at h

theorem countInv_reachable (P : Prog) (hn : 0 < P.n) (hm0 : P.managed 0 = false) (s : State) (h : Reachable P s) :
    CountInv P s := by
  induction h with
  | init => exact countInv_init P hn hm0
  | step l hr hs ih => exact countInv_step P _ _ l hs (refInv_reachable P _ hr) ih

end AwsVerif.Threads
