import AwsVerif.Proofs.C20.Tree
import AwsVerif.Proofs.C20.Hand
import AwsVerif.Proofs.C20.LoopTail
import AwsVerif.Proofs.C20.WrapStep
import AwsVerif.Proofs.C20.Pending
/-! c20_no_deadlock: in every reachable state of a WFProgress program some thread can step (after virtual time
has advanced far enough) unless all threads have finished. -/
namespace AwsVerif.Threads

/-- the only instructions that can be disabled -/
theorem exec_none_cases (P : Prog) (s : State) (t : Nat) (i : Instr) (rest : List Instr)
    (h : exec P s t i rest = none) :
    (i = .lock ∧ s.lockOwner ≠ none) ∨
    (i = .cwake ∧ ¬ (s.lockOwner = none ∧ (s.th t).waiting = true ∧
        ((s.th t).woken = true ∨ (match (s.th t).deadline with | none => false | some d => decide (d ≤ s.now)) = true))) ∨
    (∃ k, i = .joinM k ∧ (s.th k).copyId = some k ∧ ¬ ((s.th k).status = .exited ∧ t ≠ k)) ∨
    (∃ k, i = .joinU k ∧ ¬ ((s.th k).status = .exited ∧ t ≠ k)) ∨
    (∃ u, i = .sleepUntil u ∧ ¬ u ≤ s.now) := by
  cases i
  case' act a => cases a
  case' joinAndFree l => cases l
  all_goals (simp only [exec] at h)
  all_goals (repeat' split at h)
  all_goals (first | (simp at h; done) | skip)
  all_goals simp_all

structure ProgInv (P : Prog) (s : State) : Prop where
  cnt : CountInv P s
  ref : RefInv s
  pja : PjaInv P s
  own : ∀ k, OwnEq P k s
  mtx : MutexInv s
  wake : WakeInv P s
  tree : TreeInv P s
  ho : HoInv s
  loop : loopOk (s.th 0).code

theorem loop_thr (P : Prog) (s s' : State) (t : Nat) (h : step P s t = some s') (hc : CountInv P s)
    (hi : loopOk (s.th 0).code) : loopOk (s'.th 0).code := by
  by_cases ht : t = 0
  · subst ht
    rcases step_cases P s s' 0 h with ⟨hs, rfl⟩ | ⟨hs, _, hcd, rfl⟩ | ⟨hs, _, hcd, rfl⟩ | ⟨hs, e⟩ | ⟨hs, hcd, rfl⟩ | ⟨hs, i, rest, hcd, he⟩
    · simpa using loopOk_map_act _
    · simpa using hi
    · simpa using hi
    · have hc0 := hc.nocode 0 (Or.inr (Or.inr hs))
      cases hch : (s.th 0).chain with
      | nil =>
        rw [atexitStep_nil P s 0 hch] at e; subst e
        simp only [upd_same]; split <;> simp [handOverCode, loopOk, isLoopI]
      | cons c cs => rw [atexitStep_cons P s 0 c cs hch] at e; subst e; simpa [pushLog] using hi
    · simpa using hi
    · rw [hcd] at hi; exact exec_loopOk P s s' 0 i rest hi he
  · rcases otherRel_code' (step_other P s s' t h 0 (Ne.symm ht)) with h1 | h1 <;> rw [h1]
    · exact hi
    · trivial

theorem treeInv_congr (P : Prog) (s s' : State) (hi : TreeInv P s)
    (hth : ∀ k, (s'.th k).code = (s.th k).code ∧ (s'.th k).status = (s.th k).status ∧ (s'.th k).ord = (s.th k).ord)
    (hn : s'.nextOrd = s.nextOrd) (hh : s'.hstate = s.hstate) : TreeInv P s' := by
  refine ⟨fun t k hp => ?_, fun t k => ?_, fun t k hq => ?_, fun k hk => ?_, fun k hk0 hk => ?_, fun t k hq => ?_,
    fun k hq => ?_, fun t k hq => ?_, fun t k hk0 hm hj => ?_⟩
  · rw [(hth t).1] at hp; exact hi.jsrc t k hp
  · rw [(hth t).1]; exact hi.jle t k
  · rw [(hth t).1] at hq; exact hi.lsrc t k hq
  · rw [(hth k).2.1] at hk; rw [(hth k).2.2, hn]; exact hi.ordlt k hk
  · rw [(hth k).2.1] at hk
    obtain ⟨c, a, b, d, e⟩ := hi.creator k hk0 hk
    exact ⟨c, a, b, by rw [(hth c).2.1]; exact d, by rw [(hth c).2.2, (hth k).2.2]; exact e⟩
  · rw [(hth t).1] at hq; rw [(hth k).2.1]; exact hi.crs t k hq
  · rw [hh] at hq; rw [(hth k).2.1]; exact hi.hsj k hq
  · rw [(hth t).1] at hq; rw [(hth k).2.1]; exact hi.jus t k hq
  · rw [(hth k).2.1] at hj; rw [(hth t).1]; exact hi.j7b t k hk0 hm hj

theorem hoInv_congr (s s' : State) (hi : HoInv s)
    (hth : ∀ k, (s'.th k).code = (s.th k).code ∧ (s'.th k).status = (s.th k).status ∧ (s'.th k).hoSeq = (s.th k).hoSeq)
    (hn : s'.hoCtr = s.hoCtr) : HoInv s' := by
  refine ⟨fun t => ?_, fun t ht k hm => ?_, fun t ht l hm k hk => ?_, fun t ht hr => ?_, fun t hl => ?_⟩
  · rw [(hth t).2.2, hn]; exact hi.hob t
  · rw [(hth t).1] at hm; rw [(hth t).2.2, (hth k).2.2]; exact hi.hordM t ht k hm
  · rw [(hth t).1] at hm; rw [(hth t).2.2, (hth k).2.2]; exact hi.hordF t ht l hm k hk
  · rw [(hth t).1] at hr; rw [(hth t).2.1]; exact hi.late t ht hr
  · rw [(hth t).2.1] at hl; rw [(hth t).1]; exact hi.lateCode t hl

theorem treeInv_init (P : Prog) : TreeInv P (init P) := by
  have hcode : ∀ k, ((init P).th k).code = [] := by intro k; simp only [init]; split <;> rfl
  refine ⟨fun t k hp => ?_, fun t k => ?_, fun t k hq => ?_, fun k hk => ?_, fun k hk0 hk => ?_, fun t k hq => ?_,
    fun k hq => ?_, fun t k hq => ?_, fun t k _ _ _ => ?_⟩
  · rw [hcode] at hp; simp at hp
  · rw [hcode]; simp
  · rw [hcode] at hq; simp at hq
  · by_cases h0 : k = 0
    · subst h0; simp [init]
    · simp [init, h0] at hk
  · simp [init, hk0] at hk
  · rw [hcode] at hq; simp at hq
  · simp [init] at hq
  · rw [hcode] at hq; simp at hq
  · rw [hcode]; simp

theorem hoInv_init (P : Prog) : HoInv (init P) := by
  have hcode : ∀ k, ((init P).th k).code = [] := by intro k; simp only [init]; split <;> rfl
  have hho : ∀ k, ((init P).th k).hoSeq = 0 := by intro k; simp only [init]; split <;> rfl
  refine ⟨fun t => by rw [hho]; exact Nat.zero_le _, fun t _ k hm => ?_, fun t _ l hm => ?_, fun t _ hr => ?_, fun t _ => ?_⟩
  · rw [hcode] at hm; cases hm
  · rw [hcode] at hm; cases hm
  · rw [hcode] at hr; simp at hr
  · rw [hcode]; rfl

theorem progInv_reachable (P : Prog) (wf : WFProgress P) (s : State) (h : Reachable P s) : ProgInv P s := by
  have base : ∀ s, Reachable P s → CountInv P s ∧ RefInv s ∧ PjaInv P s ∧ (∀ k, OwnEq P k s) ∧ MutexInv s ∧ WakeInv P s :=
    fun s h => ⟨countInv_reachable P wf.n_pos wf.main s h, refInv_reachable P s h, pjaInv_reachable P s h,
      own_reachable P wf.n_pos wf.main s h, mutexInv_reachable P wf.n_pos wf.main s h,
      wakeInv_reachable P wf.n_pos wf.main wf.joinAllMain s h⟩
  induction h with
  | init =>
    obtain ⟨a, b, c, d, e, f⟩ := base _ Reachable.init
    exact ⟨a, b, c, d, e, f, treeInv_init P, hoInv_init P, by simp [init, loopOk]⟩
  | @step s s' l hr hs ih =>
    obtain ⟨a, b, c, d, e, f⟩ := base _ (Reachable.step l hr hs)
    refine ⟨a, b, c, d, e, f, ?_, ?_, ?_⟩
    all_goals cases l with
      | thr t => first
        | exact treeInv_thr P wf s s' t hs ih.cnt ih.wake.wfunc ih.tree
        | exact hoInv_thr P wf.main s s' t hs ih.cnt ih.pja ih.own ih.wake.nowait ih.mtx.fin ih.ho
        | exact loop_thr P s s' t hs ih.cnt ih.loop
      | tick d =>
        simp only [stepL, Option.some.injEq] at hs; subst hs
        first
        | exact treeInv_congr P s _ ih.tree (fun k => ⟨rfl, rfl, rfl⟩) rfl rfl
        | exact hoInv_congr s _ ih.ho (fun k => ⟨rfl, rfl, rfl⟩) rfl
        | exact ih.loop
      | spur t =>
        simp only [stepL] at hs
        split at hs
        · simp only [Option.some.injEq] at hs; subst hs
          have e : ∀ k, ((upd s.th t { s.th t with woken := true }) k).code = (s.th k).code ∧
              ((upd s.th t { s.th t with woken := true }) k).status = (s.th k).status ∧
              ((upd s.th t { s.th t with woken := true }) k).ord = (s.th k).ord ∧
              ((upd s.th t { s.th t with woken := true }) k).hoSeq = (s.th k).hoSeq := by
            intro k; by_cases hk : k = t
            · subst hk; simp
            · simp [upd_apply, hk]
          first
          | exact treeInv_congr P s _ ih.tree (fun k => ⟨(e k).1, (e k).2.1, (e k).2.2.1⟩) rfl rfl
          | exact hoInv_congr s _ ih.ho (fun k => ⟨(e k).1, (e k).2.1, (e k).2.2.2⟩) rfl
          | (show loopOk ((upd s.th t { s.th t with woken := true }) 0).code; rw [(e 0).1]; exact ih.loop)
        · simp at hs

/-! ### the progress argument -/

def Alive (s : State) (k : Nat) : Prop := 1 ≤ (s.th k).status.rank ∧ (s.th k).status.rank ≤ 5

/-- every time-dependent wait at the head of a thread's code has expired -/
structure TimeOk (s : State) : Prop where
  sleep : ∀ t u r, (s.th t).code = .sleepUntil u :: r → u ≤ s.now
  timed : ∀ t r d, (s.th t).code = .cwake :: r → (s.th t).deadline = some d → d ≤ s.now

theorem holder_enabled (P : Prog) (s : State) (hm : MutexInv s) (hc : CountInv P s) (o : Nat)
    (ho : s.lockOwner = some o) : (step P s o).isSome = true := by
  have hw := hm.wbAll o
  have hnw : ¬ (s.th o).waiting = true := fun hh => hm.nw o hh ho
  have hmode : modeOf s o = .inn := by unfold modeOf; simp [hnw, ho]
  rw [hmode] at hw
  cases hcd : (s.th o).code with
  | nil => rw [hcd] at hw; simp [wb] at hw
  | cons i r =>
    rw [hcd] at hw
    have hen := cs_enabled P s o i r hw
    have hst : (s.th o).status = .running ∨ (s.th o).status = .atexitDone ∨ (s.th o).status = .handedOver := by
      cases hs : (s.th o).status
      · have := hc.nocode o (Or.inl hs); rw [hcd] at this; cases this
      · have := hc.nocode o (Or.inr (Or.inl hs)); rw [hcd] at this; cases this
      · exact Or.inl rfl
      · have := hc.nocode o (Or.inr (Or.inr hs)); rw [hcd] at this; cases this
      · exact Or.inr (Or.inl rfl)
      · exact Or.inr (Or.inr rfl)
      · have := hm.fin o (Or.inl hs); rw [hcd] at this; cases this
      · have := hm.fin o (Or.inr hs); rw [hcd] at this; cases this
    unfold step
    rcases hst with hs | hs | hs <;> simp only [hs, hcd] <;> exact hen

/-- an alive thread whose step is disabled stands at one of the five blocking instructions -/
theorem blocked_shape (P : Prog) (s : State) (t : Nat) (ha : Alive s t) (hb : step P s t = none) :
    ∃ i rest, (s.th t).code = i :: rest ∧ exec P s t i rest = none ∧
      ((s.th t).status = .running ∨ (s.th t).status = .atexitDone ∨ (s.th t).status = .handedOver) := by
  unfold step at hb
  unfold Alive at ha
  cases hs : (s.th t).status <;> simp only [hs] at hb ha <;> (try (simp [Status.rank] at ha; done)) <;> (try (simp at hb; done))
  all_goals (
    cases hcd : (s.th t).code with
    | nil => simp only [hcd] at hb; first | (simp at hb; done) | (split at hb <;> simp at hb)
    | cons i rest => simp only [hcd] at hb; exact ⟨i, rest, rfl, hb, by simp⟩)

theorem count_sum_le (l : List Nat) (n : Nat) : sumTo n (fun j => l.count j) ≤ l.length := by
  induction l with
  | nil =>
    have : sumTo n (fun j => ([] : List Nat).count j) = 0 := by
      rw [← sumTo_zero n]; apply sumTo_congr; intro j _; simp
    omega
  | cons a r ih =>
    have h1 : sumTo n (fun j => (a :: r).count j) = sumTo n (fun j => r.count j + (if j = a then 1 else 0)) := by
      apply sumTo_congr; intro j _
      by_cases hja : j = a
      · subst hja; simp
      · have : ¬ a = j := fun e => hja e.symm
        simp [List.count_cons, hja, this]
    rw [h1, sumTo_add]
    have h2 : sumTo n (fun j => if j = a then 1 else 0) ≤ 1 := by
      by_cases ha : a < n
      · have := sumTo_upd1 n a (fun _ => 0) (fun j => if j = a then 1 else 0) ha (fun j _ hj => by simp [hj])
        rw [sumTo_zero] at this; simp at this; omega
      · have h3 : sumTo n (fun j => if j = a then 1 else 0) = sumTo n (fun _ => 0) := by
          apply sumTo_congr; intro j hj
          have : j ≠ a := by omega
          simp [this]
        rw [h3, sumTo_zero]; omega
    simp only [List.length_cons]; omega

theorem created_lt (P : Prog) (s : State) (hc : CountInv P s) (k : Nat) (hk : (s.th k).status ≠ .notCreated) : k < P.n := by
  by_cases hh : k < P.n
  · exact hh
  · exact absurd (hc.big k (by omega)) hk

/-- a managed thread that has handed itself over can only be blocked on a thread that handed itself over earlier -/
theorem chainM (P : Prog) (wf : WFProgress P) (s : State) (hi : ProgInv P s) (hfree : s.lockOwner = none) :
    ∀ n t, (s.th t).hoSeq = n → t ≠ 0 → (s.th t).status = .handedOver → ∃ t', (step P s t').isSome = true := by
  intro n
  induction n using Nat.strongRecOn with
  | ind n ih =>
    intro t hn ht0 hs
    cases hstep : step P s t with
    | some s' => exact ⟨t, by simp [hstep]⟩
    | none =>
      obtain ⟨i, rest, hcd, hex, _⟩ := blocked_shape P s t (by simp [Alive, hs, Status.rank]) hstep
      have hlate := hi.ho.lateCode t (Or.inr hs)
      rw [hcd] at hlate
      have htn := created_lt P s hi.cnt t (by rw [hs]; simp)
      rcases exec_none_cases P s t i rest hex with ⟨_, hne⟩ | ⟨e, _⟩ | ⟨k, e, hcopy, hneg⟩ | ⟨k, e, _⟩ | ⟨u, e, _⟩
      · exact absurd hfree hne
      · subst e; simp [isLate] at hlate
      · subst e
        have hm : Instr.joinM k ∈ (s.th t).code := by rw [hcd]; simp
        have hord := hi.ho.hordM t ht0 k hm
        have hkt : t ≠ k := by intro e; subst e; omega
        have hstarted := hi.ref.refs.mj t k hm
        have hkn := created_lt P s hi.cnt k (by intro e; rw [e] at hstarted; simp [Status.rank] at hstarted)
        obtain ⟨hmg, hst⟩ := refd_status P s k t hkn htn (hi.own k) (occ_pos_of_joinM k _ hm)
        rcases hst with hst | hst
        · have hk0 : k ≠ 0 := by intro e; subst e; rw [wf.main] at hmg; cases hmg
          exact ih (s.th k).hoSeq (by omega) k rfl hk0 hst
        · exact absurd ⟨hst, hkt⟩ hneg
      · subst e; simp [isLate] at hlate
      · subst e; simp [isLate] at hlate

/-- any alive thread other than main leads, along join edges, to a thread that can step -/
theorem chainU (P : Prog) (wf : WFProgress P) (s : State) (hi : ProgInv P s) (htime : TimeOk s)
    (hfree : s.lockOwner = none) :
    ∀ m t, s.nextOrd - (s.th t).ord = m → t ≠ 0 → Alive s t → ∃ t', (step P s t').isSome = true := by
  intro m
  induction m using Nat.strongRecOn with
  | ind m ih =>
    intro t hm ht0 ha
    cases hstep : step P s t with
    | some s' => exact ⟨t, by simp [hstep]⟩
    | none =>
      obtain ⟨i, rest, hcd, hex, hst⟩ := blocked_shape P s t ha hstep
      have hne : (s.th t).status ≠ .notCreated := by rcases hst with h | h | h <;> rw [h] <;> simp
      have htn := created_lt P s hi.cnt t hne
      rcases exec_none_cases P s t i rest hex with ⟨_, hne'⟩ | ⟨e, _⟩ | ⟨k, e, _, _⟩ | ⟨k, e, hneg⟩ | ⟨u, e, hu⟩
      · exact absurd hfree hne'
      · subst e
        have := (hi.wake.nowait t ht0).1
        rw [hcd] at this; simp [anyJA, Instr.isJA] at this
      · subst e
        have hl := hi.ho.late t ht0 (by rw [hcd]; simp [hasRefI])
        exact chainM P wf s hi hfree _ t rfl ht0 hl
      · subst e
        have hju : (s.th t).code.any (isJU k) = true := by rw [hcd]; simp [isJU]
        obtain ⟨hkc, hk0⟩ := hi.tree.jus t k hju
        have hcnt : 0 < (s.th t).code.countP (qJoin k) := by rw [hcd]; simp [List.countP_cons, qJoin]
        have hjb := hi.tree.jsrc t k hcnt
        have hlt := wf.joinByLauncher t k htn hjb
        obtain ⟨c, hcn, hcl, _, hco⟩ := hi.tree.creator k hk0 hkc
        have hct := launcher_unique P wf c t k hcn htn hcl hlt
        subst hct
        have hkt : c ≠ k := by intro e; subst e; omega
        have hmg : P.managed k = false := hi.cnt.memb.hu c k (by rw [hcd]; simp)
        have hnj : (s.th k).status ≠ .joined := by
          intro hj
          have := hi.tree.j7b c k hk0 hmg hj
          omega
        have hnex : (s.th k).status ≠ .exited := fun hx => hneg ⟨hx, hkt⟩
        have hka : Alive s k := by
          unfold Alive
          cases hs : (s.th k).status <;> simp_all [Status.rank]
        have hko := hi.tree.ordlt k hkc
        exact ih (s.nextOrd - (s.th k).ord) (by omega) k rfl hk0 hka
      · subst e
        exact absurd (htime.sleep t u rest hcd) hu

theorem not_alive_cases (s : State) (k : Nat) (h : ¬ Alive s k) :
    (s.th k).status = .notCreated ∨ (s.th k).status = .exited ∨ (s.th k).status = .joined := by
  unfold Alive at h
  cases hs : (s.th k).status <;> simp_all [Status.rank]

/-- only the main thread is still alive: it cannot be blocked -/
theorem mainOnly (P : Prog) (wf : WFProgress P) (s : State) (hi : ProgInv P s) (htime : TimeOk s)
    (hfree : s.lockOwner = none) (hpl : s.pending.length ≤ 1)
    (hothers : ∀ k, k ≠ 0 → k < P.n → ¬ Alive s k) (hmain : Alive s 0) : ∃ t', (step P s t').isSome = true := by
  cases hstep : step P s 0 with
  | some s' => exact ⟨0, by simp [hstep]⟩
  | none =>
    exfalso
    obtain ⟨i, rest, hcd, hex, hst⟩ := blocked_shape P s 0 hmain hstep
    have h0n := wf.n_pos
    have hcode0 : ∀ j, j ≠ 0 → j < P.n → (s.th j).code = [] := by
      intro j hj hjn
      rcases not_alive_cases s j (hothers j hj hjn) with h | h | h
      · exact hi.cnt.nocode j (Or.inl h)
      · exact hi.mtx.fin j (Or.inl h)
      · exact hi.mtx.fin j (Or.inr h)
    rcases exec_none_cases P s 0 i rest hex with ⟨_, hne'⟩ | ⟨e, hcw⟩ | ⟨k, e, _, hneg⟩ | ⟨k, e, hneg⟩ | ⟨u, e, hu⟩
    · exact hne' hfree
    · -- blocked in the condition wait
      subst e
      have hwb := hi.mtx.wbAll 0
      rw [hcd] at hwb
      have hwait : (s.th 0).waiting = true := by
        unfold modeOf at hwb
        by_cases h1 : (s.th 0).waiting = true
        · exact h1
        · by_cases h2 : s.lockOwner = some 0 <;> simp [h1, h2, wb] at hwb
      have hwk : (s.th 0).woken = false := by
        cases hh : (s.th 0).woken
        · rfl
        · exact absurd ⟨hfree, hwait, Or.inl hh⟩ hcw
      have hdl : (s.th 0).deadline = none := by
        cases hh : (s.th 0).deadline with
        | none => rfl
        | some d =>
          exfalso
          have := htime.timed 0 rest d hcd hh
          exact hcw ⟨hfree, hwait, Or.inr (by simp [hh, this])⟩
      have hcount : 2 ≤ s.count := by
        rcases hi.wake.lw.lw hwait hwk hdl with h | ⟨o, r, ho, _⟩
        · exact h
        · rw [hfree] at ho; cases ho
      have hinert : rest.all inertI = true := by
        have := hi.loop
        rw [hcd] at this
        exact this.1 rfl
      have hocc0 : ∀ j, occ j (s.th 0).code = 0 := by
        intro j; rw [hcd]; simp [occ, occI, inert_occ j rest hinert]
      have hpw : ∀ j, j < P.n → wPlus P j (s.th j) ≤ wMinus P (s.th j) + s.pending.count j := by
        intro j hjn
        by_cases hj : j = 0
        · subst hj
          simp only [wPlus, wMinus, hcd, cPlus, cMinus, iPlus, iMinus, wf.main, inert_bal P rest hinert]
          simp
        · have hc0 := hcode0 j hj hjn
          simp only [wPlus, wMinus, hc0, cPlus, cMinus]
          by_cases hlive : (P.managed j && isLive (s.th j).status) = true
          · simp only [hlive, if_true]
            have hmg : P.managed j = true := by
              cases h : P.managed j <;> simp [h] at hlive ⊢
            have hex' : (s.th j).status = .exited := by
              rcases not_alive_cases s j (hothers j hj hjn) with h | h | h <;> simp [h, hmg, isLive, Status.rank] at hlive ⊢
            have hown := hi.own j
            unfold OwnEq at hown
            rw [oPlus_sum P j s hjn] at hown
            have hz : sumTo P.n (fun t => occ j (s.th t).code) = 0 := by
              rw [← sumTo_zero P.n]; apply sumTo_congr; intro t htn
              by_cases ht : t = 0
              · subst ht; exact hocc0 j
              · rw [hcode0 t ht htn]; rfl
            rw [hz] at hown
            simp [hmg, hex'] at hown
            omega
          · simp [hlive]
      have hsum : sumTo P.n (fun j => wPlus P j (s.th j)) ≤
          sumTo P.n (fun j => wMinus P (s.th j)) + sumTo P.n (fun j => s.pending.count j) := by
        rw [← sumTo_add]; exact sumTo_le P.n _ _ hpw
      have hcs := count_sum_le s.pending P.n
      have heq := hi.cnt.eq
      unfold CountEq at heq
      omega
    · -- blocked joining a managed thread
      subst e
      have hm : Instr.joinM k ∈ (s.th 0).code := by rw [hcd]; simp
      have hstarted := hi.ref.refs.mj 0 k hm
      have hkn := created_lt P s hi.cnt k (by intro e; rw [e] at hstarted; simp [Status.rank] at hstarted)
      obtain ⟨hmg, hstk⟩ := refd_status P s k 0 hkn h0n (hi.own k) (occ_pos_of_joinM k _ hm)
      have hk0 : k ≠ 0 := by intro e; subst e; rw [wf.main] at hmg; cases hmg
      rcases hstk with hstk | hstk
      · exact hothers k hk0 hkn (by simp [Alive, hstk, Status.rank])
      · exact hneg ⟨hstk, fun e => hk0 e.symm⟩
    · -- blocked joining a manual thread
      subst e
      have hju : (s.th 0).code.any (isJU k) = true := by rw [hcd]; simp [isJU]
      obtain ⟨hkc, hk0⟩ := hi.tree.jus 0 k hju
      have hkn := created_lt P s hi.cnt k hkc
      have hmg : P.managed k = false := hi.cnt.memb.hu 0 k (by rw [hcd]; simp)
      have hnj : (s.th k).status ≠ .joined := by
        intro hj
        have := hi.tree.j7b 0 k hk0 hmg hj
        rw [hcd] at this; simp [List.countP_cons, qJoin] at this
      have hnex : (s.th k).status ≠ .exited := fun hx => hneg ⟨hx, fun e => hk0 e.symm⟩
      rcases not_alive_cases s k (hothers k hk0 hkn) with h | h | h
      · exact hkc h
      · exact hnex h
      · exact hnj h
    · subst e
      exact hu (htime.sleep 0 u rest hcd)

/-- progress in a state whose time-dependent waits have all expired -/
theorem progress_timeOk (P : Prog) (wf : WFProgress P) (s : State) (hr : Reachable P s) (htime : TimeOk s) :
    AllFinished P s ∨ ∃ t, (step P s t).isSome = true := by
  have hi := progInv_reachable P wf s hr
  have hpl := pending_le_one P s hr
  by_cases hfin : AllFinished P s
  · exact Or.inl hfin
  · refine Or.inr ?_
    cases hlo : s.lockOwner with
    | some o => exact ⟨o, holder_enabled P s hi.mtx hi.cnt o hlo⟩
    | none =>
      by_cases hoth : ∃ k, k ≠ 0 ∧ k < P.n ∧ Alive s k
      · obtain ⟨k, hk0, _, hka⟩ := hoth
        exact chainU P wf s hi htime hlo _ k rfl hk0 hka
      · have hothers : ∀ k, k ≠ 0 → k < P.n → ¬ Alive s k := fun k h1 h2 h3 => hoth ⟨k, h1, h2, h3⟩
        have hmain : Alive s 0 := by
          by_cases hm : Alive s 0
          · exact hm
          · exfalso
            apply hfin
            intro k hk
            by_cases hk0 : k = 0
            · subst hk0; exact not_alive_cases s 0 hm
            · exact not_alive_cases s k (hothers k hk0 hk)
        exact mainOnly P wf s hi htime hlo hpl hothers hmain

/-- the wake-up time a thread is waiting for (0 if none) -/
def target (s : State) (t : Nat) : Nat :=
  match (s.th t).code with
  | .sleepUntil u :: _ => u
  | .cwake :: _ => (s.th t).deadline.getD 0
  | _ => 0

theorem no_deadlock_core (P : Prog) (wf : WFProgress P) (s : State) (hr : Reachable P s) :
    AllFinished P s ∨ ∃ d t, (step P { s with now := s.now + d } t).isSome = true := by
  let D := sumTo P.n (fun t => target s t)
  have hr' : Reachable P { s with now := s.now + D } := Reachable.step (Label.tick D) hr rfl
  have hc := countInv_reachable P wf.n_pos wf.main s hr
  have hlt : ∀ t, (s.th t).code ≠ [] → t < P.n := by
    intro t ht
    by_cases hh : t < P.n
    · exact hh
    · exact absurd (hc.nocode t (Or.inl (hc.big t (by omega)))) ht
  have htime : TimeOk { s with now := s.now + D } := by
    refine ⟨fun t u r hcd => ?_, fun t r d hcd hd => ?_⟩
    · have htn := hlt t (by rw [show (s.th t).code = _ from hcd]; simp)
      have := sumTo_ge P.n t (fun t => target s t) htn
      have e : target s t = u := by unfold target; rw [show (s.th t).code = _ from hcd]
      show u ≤ s.now + D
      omega
    · have htn := hlt t (by rw [show (s.th t).code = _ from hcd]; simp)
      have := sumTo_ge P.n t (fun t => target s t) htn
      have e : target s t = d := by
        unfold target; rw [show (s.th t).code = _ from hcd, show (s.th t).deadline = _ from hd]; rfl
      show d ≤ s.now + D
      omega
  rcases progress_timeOk P wf _ hr' htime with h | ⟨t, h⟩
  · exact Or.inl h
  · exact Or.inr ⟨D, t, h⟩

end AwsVerif.Threads
