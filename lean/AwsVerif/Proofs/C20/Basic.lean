import AwsVerif.Model.Threads
/-! Case-analysis tactics and projection lemmas shared by the C20 invariant proofs. -/
namespace AwsVerif.Threads

@[simp] theorem cont_th (s : State) (t : Nat) (me : Th) (c : List Instr) :
    (cont s t me c).th = upd s.th t { me with code := c } := rfl
@[simp] theorem cont_log (s : State) (t : Nat) (me : Th) (c : List Instr) : (cont s t me c).log = s.log := rfl
@[simp] theorem cont_count (s : State) (t : Nat) (me : Th) (c : List Instr) : (cont s t me c).count = s.count := rfl
@[simp] theorem cont_pending (s : State) (t : Nat) (me : Th) (c : List Instr) : (cont s t me c).pending = s.pending := rfl
@[simp] theorem cont_lockOwner (s : State) (t : Nat) (me : Th) (c : List Instr) : (cont s t me c).lockOwner = s.lockOwner := rfl
@[simp] theorem cont_wLive (s : State) (t : Nat) (me : Th) (c : List Instr) : (cont s t me c).wLive = s.wLive := rfl
@[simp] theorem cont_cbLive (s : State) (t : Nat) (me : Th) (c : List Instr) : (cont s t me c).cbLive = s.cbLive := rfl
@[simp] theorem cont_hstate (s : State) (t : Nat) (me : Th) (c : List Instr) : (cont s t me c).hstate = s.hstate := rfl
@[simp] theorem cont_now (s : State) (t : Nat) (me : Th) (c : List Instr) : (cont s t me c).now = s.now := rfl

@[simp] theorem pushW_th (s : State) (e : WEv) : (pushW s e).th = s.th := rfl
@[simp] theorem pushW_log (s : State) (e : WEv) : (pushW s e).log = s.log := rfl
@[simp] theorem pushW_count (s : State) (e : WEv) : (pushW s e).count = s.count := rfl
@[simp] theorem pushW_pending (s : State) (e : WEv) : (pushW s e).pending = s.pending := rfl
@[simp] theorem pushW_lockOwner (s : State) (e : WEv) : (pushW s e).lockOwner = s.lockOwner := rfl
@[simp] theorem pushW_wLive (s : State) (e : WEv) : (pushW s e).wLive = s.wLive := rfl
@[simp] theorem pushW_cbLive (s : State) (e : WEv) : (pushW s e).cbLive = s.cbLive := rfl
@[simp] theorem pushW_hstate (s : State) (e : WEv) : (pushW s e).hstate = s.hstate := rfl
@[simp] theorem pushW_now (s : State) (e : WEv) : (pushW s e).now = s.now := rfl

@[simp] theorem pushLog_th (s : State) (e : Ev) : (pushLog s e).th = s.th := rfl
@[simp] theorem pushLog_log (s : State) (e : Ev) : (pushLog s e).log = e :: s.log := rfl
@[simp] theorem pushLog_count (s : State) (e : Ev) : (pushLog s e).count = s.count := rfl
@[simp] theorem pushLog_pending (s : State) (e : Ev) : (pushLog s e).pending = s.pending := rfl
@[simp] theorem pushLog_lockOwner (s : State) (e : Ev) : (pushLog s e).lockOwner = s.lockOwner := rfl
@[simp] theorem pushLog_wLive (s : State) (e : Ev) : (pushLog s e).wLive = s.wLive := rfl
@[simp] theorem pushLog_cbLive (s : State) (e : Ev) : (pushLog s e).cbLive = s.cbLive := rfl
@[simp] theorem pushLog_hstate (s : State) (e : Ev) : (pushLog s e).hstate = s.hstate := rfl
@[simp] theorem pushLog_now (s : State) (e : Ev) : (pushLog s e).now = s.now := rfl

@[simp] theorem freeWrapper_th (s : State) (k : Nat) : (freeWrapper s k).th = s.th := rfl
@[simp] theorem freeWrapper_log (s : State) (k : Nat) : (freeWrapper s k).log = s.log := rfl
@[simp] theorem freeWrapper_count (s : State) (k : Nat) : (freeWrapper s k).count = s.count := rfl
@[simp] theorem freeWrapper_pending (s : State) (k : Nat) : (freeWrapper s k).pending = s.pending := rfl
@[simp] theorem freeWrapper_lockOwner (s : State) (k : Nat) : (freeWrapper s k).lockOwner = s.lockOwner := rfl
@[simp] theorem freeWrapper_wLive (s : State) (k : Nat) : (freeWrapper s k).wLive = s.wLive - k := rfl
@[simp] theorem freeWrapper_cbLive (s : State) (k : Nat) : (freeWrapper s k).cbLive = s.cbLive := rfl
@[simp] theorem freeWrapper_hstate (s : State) (k : Nat) : (freeWrapper s k).hstate = s.hstate := rfl
@[simp] theorem freeWrapper_now (s : State) (k : Nat) : (freeWrapper s k).now = s.now := rfl

@[simp] theorem exitStep_th (s : State) (t : Nat) :
    (exitStep s t).th = upd s.th t { s.th t with status := .exited } := rfl
@[simp] theorem exitStep_log (s : State) (t : Nat) : (exitStep s t).log = s.log := rfl
@[simp] theorem exitStep_count (s : State) (t : Nat) : (exitStep s t).count = s.count := rfl
@[simp] theorem exitStep_pending (s : State) (t : Nat) : (exitStep s t).pending = s.pending := rfl
@[simp] theorem exitStep_lockOwner (s : State) (t : Nat) : (exitStep s t).lockOwner = s.lockOwner := rfl
@[simp] theorem exitStep_wLive (s : State) (t : Nat) : (exitStep s t).wLive = s.wLive := rfl
@[simp] theorem exitStep_cbLive (s : State) (t : Nat) : (exitStep s t).cbLive = s.cbLive := rfl
@[simp] theorem exitStep_hstate (s : State) (t : Nat) : (exitStep s t).hstate = s.hstate := rfl
@[simp] theorem exitStep_now (s : State) (t : Nat) : (exitStep s t).now = s.now := rfl

@[simp] theorem cont_misuse (s : State) (t : Nat) (me : Th) (c : List Instr) : (cont s t me c).misuse = s.misuse := rfl
@[simp] theorem pushW_misuse (s : State) (e : WEv) : (pushW s e).misuse = s.misuse := rfl
@[simp] theorem pushLog_misuse (s : State) (e : Ev) : (pushLog s e).misuse = s.misuse := rfl
@[simp] theorem freeWrapper_misuse (s : State) (k : Nat) : (freeWrapper s k).misuse = s.misuse := rfl
@[simp] theorem exitStep_misuse (s : State) (t : Nat) : (exitStep s t).misuse = s.misuse := rfl

theorem upd_apply {α : Type} (f : Nat → α) (k j : Nat) (v : α) : upd f k v j = if j = k then v else f j := rfl

/-- reduce `h : exec P s t <constructor> rest = some s'` to `s' = …` (substituted), one goal per branch -/
macro "exec_split" h:ident : tactic => `(tactic|
  ((simp only [exec] at $h:ident) <;> (repeat' split at $h:ident) <;>
   (first | (simp at $h:ident; done) | skip) <;>
   (simp only [Option.some.injEq] at $h:ident; subst $h:ident)))

end AwsVerif.Threads
