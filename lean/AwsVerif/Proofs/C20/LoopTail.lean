import AwsVerif.Proofs.C20.Own
/-! While a thread is inside the wait loop of `aws_thread_join_all_managed`, the rest of its code holds no join
list, no pending decrement and no half-done launch: the loop body consumes everything it takes. -/
namespace AwsVerif.Threads

def isLoopI : Instr → Bool
  | .act .joinAll | .jaLoop | .waitPred | .waitForPredInit | .waitForPred | .cwait _ | .cwake | .jaCheck => true
  | _ => false

def inertI : Instr → Bool
  | .act _ | .lock | .waitPred | .waitForPredInit | .waitForPred | .cwait _ | .cwake | .jaCheck => true
  | _ => false

def loopOk : List Instr → Prop
  | [] => True
  | i :: r => (isLoopI i = true → r.all inertI = true) ∧ loopOk r

theorem loopOk_map_act (l : List Action) : loopOk (l.map Instr.act) := by
  induction l with
  | nil => trivial
  | cons a r ih => exact ⟨fun _ => by simp [List.all_map, inertI], ih⟩

theorem exec_loopOk (P : Prog) (s s' : State) (t : Nat) (i : Instr) (rest : List Instr)
    (hl : loopOk (i :: rest)) (h : exec P s t i rest = some s') : loopOk (s'.th t).code := by
  have h1 := hl.1
  have h2 := hl.2
  cases i
  case' act a => cases a
  case' joinAndFree l => cases l
  all_goals exec_split h
  all_goals (
    simp only [cont_th, pushW_th, pushLog_th, freeWrapper_th, upd_same, expand]
    first
    | exact h2
    | ((repeat' split) <;>
       simp [loopOk, isLoopI, inertI, List.all_append, List.all_cons, h2, -List.all_eq_true] at h1 ⊢ <;>
       (try assumption)))

theorem inert_bal (P : Prog) (c : List Instr) (h : c.all inertI = true) : cPlus P c = cMinus P c := by
  induction c with
  | nil => rfl
  | cons i r ih =>
    simp only [List.all_cons, Bool.and_eq_true] at h
    have := ih h.2
    cases i <;> simp [inertI] at h <;> simp [cPlus, cMinus, iPlus, iMinus, this]
    rename_i a; cases a <;> simp [iPlus, iMinus]

theorem inert_occ (k : Nat) (c : List Instr) (h : c.all inertI = true) : occ k c = 0 := by
  induction c with
  | nil => rfl
  | cons i r ih =>
    simp only [List.all_cons, Bool.and_eq_true] at h
    have := ih h.2
    cases i <;> simp [inertI] at h <;> simp [occ, occI, this]

end AwsVerif.Threads
