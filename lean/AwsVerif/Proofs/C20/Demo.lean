import AwsVerif.Model.Threads
/-! A deterministic executor used by the `example`s of Props/C20.lean (shows the theorems' hypotheses are satisfiable). -/
namespace AwsVerif.Threads

/-- run micro-steps, always of the highest-numbered thread that has one -/
def drive (P : Prog) : Nat → State → State
  | 0, s => s
  | f + 1, s =>
    match (List.range P.n).reverse.find? (fun t => (step P s t).isSome) with
    | some t => match step P s t with
      | some s' => drive P f s'
      | none => s
    | none => s

theorem drive_reachable (P : Prog) (f : Nat) (s : State) (h : Reachable P s) : Reachable P (drive P f s) := by
  induction f generalizing s with
  | zero => exact h
  | succ f ih =>
    simp only [drive]
    split
    · rename_i t _
      split
      · rename_i s' hs
        exact ih s' (Reachable.step (Label.thr t) h hs)
      · exact h
    · exact h

/-- run micro-steps of the listed threads in order (a step that is not enabled is skipped) -/
def runList (P : Prog) : List Nat → State → State
  | [], s => s
  | t :: r, s => match step P s t with
    | some s' => runList P r s'
    | none => runList P r s

theorem runList_reachable (P : Prog) (l : List Nat) (s : State) (h : Reachable P s) : Reachable P (runList P l s) := by
  induction l generalizing s with
  | nil => exact h
  | cons t r ih =>
    simp only [runList]
    split
    · rename_i s' hs; exact ih s' (Reachable.step (Label.thr t) h hs)
    · exact ih s h

end AwsVerif.Threads
