import AwsVerif.Proofs.C20.Frame
/-! `s_pending_join_managed_threads` never holds more than one wrapper. -/
namespace AwsVerif.Threads

theorem exec_pending (P : Prog) (s s' : State) (t : Nat) (i : Instr) (rest : List Instr)
    (h : exec P s t i rest = some s') : s'.pending = s.pending ∨ s'.pending = [] ∨ s'.pending = [t] := by
  cases i
  case' act a => cases a
  case' joinAndFree l => cases l
  all_goals exec_split h
  all_goals (
    simp)

theorem step_pending (P : Prog) (s s' : State) (t : Nat) (h : step P s t = some s') :
    s'.pending = s.pending ∨ s'.pending = [] ∨ s'.pending = [t] := by
  rcases step_cases P s s' t h with ⟨_, rfl⟩ | ⟨_, _, _, rfl⟩ | ⟨_, _, _, rfl⟩ | ⟨_, rfl⟩ | ⟨_, _, _, rfl⟩ | ⟨_, i, rest, _, he⟩
  · exact Or.inl rfl
  · exact Or.inl rfl
  · left; unfold funcEndStep; split <;> rfl
  · left; cases hc : (s.th t).chain with
    | nil => rw [atexitStep_nil P s t hc]
    | cons c cs => rw [atexitStep_cons P s t c cs hc]; rfl
  · exact Or.inl rfl
  · exact exec_pending P s s' t i rest he

theorem pending_le_one (P : Prog) (s : State) (h : Reachable P s) : s.pending.length ≤ 1 := by
  induction h with
  | init => simp [init]
  | step l _ hs ih =>
    cases l with
    | thr t =>
      rcases step_pending P _ _ t hs with h1 | h1 | h1 <;> rw [h1]
      · exact ih
      · simp
      · simp
    | tick d => simp only [stepL, Option.some.injEq] at hs; subst hs; exact ih
    | spur t =>
      simp only [stepL] at hs
      split at hs
      · simp only [Option.some.injEq] at hs; subst hs; exact ih
      · simp at hs

end AwsVerif.Threads
