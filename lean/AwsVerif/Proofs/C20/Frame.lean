import AwsVerif.Proofs.C20.Basic
/-! Frame lemmas: what one micro-step can do to *another* thread's record, to its own record and to the log. -/
namespace AwsVerif.Threads

/-- what a step of thread `t` can do to the record of another thread `k` -/
def OtherRel (s : State) (k : Nat) (a b : Th) : Prop :=
  b = a ∨ b = { a with woken := true } ∨
  (a.status = .notCreated ∧ ∃ nm hn, b = { status := .created, ord := s.nextOrd, wFunc := k, wArg := k, named := nm, hasName := hn }) ∨
  (a.status = .exited ∧ b = { a with status := .joined })

theorem exec_other (P : Prog) (s s' : State) (t : Nat) (i : Instr) (rest : List Instr)
    (h : exec P s t i rest = some s') : ∀ k, k ≠ t → OtherRel s k (s.th k) (s'.th k) := by
  cases i
  case' act a => cases a
  case' joinAndFree l => cases l
  all_goals exec_split h
  all_goals (
    intro k hk
    unfold OtherRel
    simp only [cont_th, pushW_th, pushLog_th, freeWrapper_th, upd_apply, hk, if_false]
    first
    | exact Or.inl trivial
    | exact Or.inl rfl
    | (split
       · rename_i hh; subst hh; simp_all
       · first | exact Or.inl trivial | exact Or.inl rfl))

/-- events that are neither a function start/end, nor a successful registration, nor a callback -/
def Ev.plain : Ev → Bool
  | .run _ _ | .done _ | .cb _ _ _ | .reg _ _ true => false
  | _ => true

/-- what an `exec` step does to the executing thread's status / chain / wrapper copy and to the log -/
def OwnRel (s s' : State) (t : Nat) : Prop :=
  let a := s.th t
  let b := s'.th t
  (b.status = a.status ∨ (a.status = .atexitDone ∧ b.status = .handedOver)) ∧
  b.wArg = a.wArg ∧ b.wFunc = a.wFunc ∧
  ((b.chain = a.chain ∧ (s'.log = s.log ∨ ∃ e, s'.log = e :: s.log ∧ e.plain = true)) ∨
   (∃ c, a.status = .running ∧ t ≠ 0 ∧ b.chain = c :: a.chain ∧ s'.log = .reg t c true :: s.log))

theorem exec_own (P : Prog) (s s' : State) (t : Nat) (i : Instr) (rest : List Instr)
    (h : exec P s t i rest = some s') : OwnRel s s' t := by
  cases i
  case' act a => cases a
  case' joinAndFree l => cases l
  all_goals exec_split h
  all_goals (
    unfold OwnRel
    simp only [cont_th, pushW_th, pushLog_th, freeWrapper_th, cont_log, pushW_log, pushLog_log, freeWrapper_log, upd_same]
    first
    | (simp_all [Ev.plain, upd_apply]; done)
    | (rename_i j _; by_cases hj : t = j <;> simp_all [Ev.plain]))

/-- a `joinRet k` event is logged only by the step that turns `k` from exited into joined -/
theorem exec_joinRet (P : Prog) (s s' : State) (t : Nat) (i : Instr) (rest : List Instr)
    (h : exec P s t i rest = some s') :
    ∀ k b, s'.log = .joinRet k b :: s.log → (s.th k).status = .exited ∧ (s'.th k).status = .joined ∧ b = t := by
  cases i
  case' act a => cases a
  case' joinAndFree l => cases l
  all_goals exec_split h
  all_goals (
    intro k b
    simp only [cont_th, pushW_th, pushLog_th, freeWrapper_th, cont_log, pushW_log, pushLog_log, freeWrapper_log]
    intro hl
    first
    | (exact absurd hl (List.ne_cons_self _ _).symm)
    | (simp at hl; done)
    | (simp at hl; obtain ⟨rfl, rfl⟩ := hl; rename_i h1 _ _; have hne := Ne.symm h1; simp_all))

/-- the possible shapes of one micro-step of thread `t`, seen on its own record and the log -/
inductive OwnStep (s s' : State) (t : Nat) : Prop where
  | start : (s.th t).status = .created → (s'.th t).status = .running → (s'.th t).chain = (s.th t).chain →
      (s'.th t).wArg = (s.th t).wArg → s'.log = .run t (s.th t).wArg :: s.log → OwnStep s s' t
  | exec : ((s.th t).status = .running ∨ (s.th t).status = .atexitDone ∨ (s.th t).status = .handedOver) →
      OwnRel s s' t → OwnStep s s' t
  | funcEnd : (s.th t).status = .running → t ≠ 0 → (s'.th t).status = .funcDone → (s'.th t).chain = (s.th t).chain →
      (s'.th t).wArg = (s.th t).wArg → s'.log = .done t :: s.log → OwnStep s s' t
  | exit : ((s.th t).status = .running ∧ t = 0 ∨ (s.th t).status = .atexitDone ∨ (s.th t).status = .handedOver) →
      (s'.th t).status = .exited → (s'.th t).chain = (s.th t).chain → (s'.th t).wArg = (s.th t).wArg →
      s'.log = s.log → OwnStep s s' t
  | cb (c : Nat) : (s.th t).status = .funcDone → (s.th t).chain = c :: (s'.th t).chain → (s'.th t).status = .funcDone →
      (s'.th t).wArg = (s.th t).wArg → s'.log = .cb t c t :: s.log → OwnStep s s' t
  | atexitDone : (s.th t).status = .funcDone → (s.th t).chain = [] → (s'.th t).chain = [] →
      (s'.th t).status = .atexitDone → (s'.th t).wArg = (s.th t).wArg → s'.log = s.log → OwnStep s s' t

/-- the branches of `step` -/
theorem step_cases (P : Prog) (s s' : State) (t : Nat) (h : step P s t = some s') :
    ((s.th t).status = .created ∧ s' = startStep P s t) ∨
    ((s.th t).status = .running ∧ t = 0 ∧ (s.th t).code = [] ∧ s' = exitStep s t) ∨
    ((s.th t).status = .running ∧ t ≠ 0 ∧ (s.th t).code = [] ∧ s' = funcEndStep P s t) ∨
    ((s.th t).status = .funcDone ∧ s' = atexitStep P s t) ∨
    (((s.th t).status = .atexitDone ∨ (s.th t).status = .handedOver) ∧ (s.th t).code = [] ∧ s' = exitStep s t) ∨
    (((s.th t).status = .running ∨ (s.th t).status = .atexitDone ∨ (s.th t).status = .handedOver) ∧
      ∃ i rest, (s.th t).code = i :: rest ∧ exec P s t i rest = some s') := by
  unfold step at h
  cases hs : (s.th t).status <;> simp only [hs] at h <;> (try (simp at h; done))
  · simp_all
  · cases hc : (s.th t).code <;> simp only [hc] at h
    · by_cases ht : t = 0 <;> simp_all
    · exact Or.inr (Or.inr (Or.inr (Or.inr (Or.inr ⟨Or.inl rfl, _, _, rfl, h⟩))))
  · simp_all
  · cases hc : (s.th t).code <;> simp only [hc] at h
    · simp_all
    · exact Or.inr (Or.inr (Or.inr (Or.inr (Or.inr ⟨Or.inr (Or.inl rfl), _, _, rfl, h⟩))))
  · cases hc : (s.th t).code <;> simp only [hc] at h
    · simp_all
    · exact Or.inr (Or.inr (Or.inr (Or.inr (Or.inr ⟨Or.inr (Or.inr rfl), _, _, rfl, h⟩))))

@[simp] theorem startStep_th (P : Prog) (s : State) (t : Nat) : (startStep P s t).th =
    upd s.th t { s.th t with status := .running, code := (P.body (s.th t).wFunc).map Instr.act,
                             copyId := some t, named := false, hasName := (s.th t).named || (s.th t).hasName } := rfl
@[simp] theorem startStep_log (P : Prog) (s : State) (t : Nat) :
    (startStep P s t).log = .run t (s.th t).wArg :: s.log := rfl
theorem atexitStep_nil (P : Prog) (s : State) (t : Nat) (hc : (s.th t).chain = []) : atexitStep P s t =
    { s with th := upd s.th t { s.th t with status := .atexitDone, code := if P.managed t then handOverCode else [] } } := by
  unfold atexitStep; simp only [hc]
theorem atexitStep_cons (P : Prog) (s : State) (t c : Nat) (cs : List Nat) (hc : (s.th t).chain = c :: cs) :
    atexitStep P s t = pushLog { s with th := upd s.th t { s.th t with chain := cs }, cbLive := s.cbLive - 1 } (.cb t c t) := by
  unfold atexitStep; simp only [hc]
@[simp] theorem funcEndStep_th (P : Prog) (s : State) (t : Nat) : (funcEndStep P s t).th =
    upd s.th t { s.th t with status := .funcDone } := by unfold funcEndStep; split <;> rfl
@[simp] theorem funcEndStep_log (P : Prog) (s : State) (t : Nat) : (funcEndStep P s t).log = .done t :: s.log := by
  unfold funcEndStep; split <;> rfl

theorem step_own (P : Prog) (s s' : State) (t : Nat) (h : step P s t = some s') : OwnStep s s' t := by
  rcases step_cases P s s' t h with ⟨hs, rfl⟩ | ⟨hs, ht, _, rfl⟩ | ⟨hs, ht, _, rfl⟩ | ⟨hs, rfl⟩ | ⟨hs, _, _, rfl⟩ | ⟨hs, i, rest, _, he⟩
  · exact .start hs (by simp) (by simp) (by simp) (by simp)
  · exact .exit (Or.inl ⟨hs, ht⟩) (by simp) (by simp) (by simp) (by simp)
  · exact .funcEnd hs ht (by simp) (by simp) (by simp) (by simp)
  · cases hc : (s.th t).chain with
    | nil => rw [atexitStep_nil P s t hc]; exact .atexitDone hs hc (by simp [hc]) (by simp) (by simp) (by simp)
    | cons c cs => rw [atexitStep_cons P s t c cs hc]; exact .cb c hs (by simp [hc]) (by simp [hs]) (by simp) (by simp)
  · exact .exit (Or.inr hs) (by simp) (by simp) (by simp) (by simp)
  · exact .exec hs (exec_own P s s' t i rest he)

theorem step_other (P : Prog) (s s' : State) (t : Nat) (h : step P s t = some s') :
    ∀ k, k ≠ t → OtherRel s k (s.th k) (s'.th k) := by
  intro k hk
  have triv : ∀ x : Th, OtherRel s k (s.th k) (upd s.th t x k) := by
    intro x; simp [hk, OtherRel]
  rcases step_cases P s s' t h with ⟨_, rfl⟩ | ⟨_, _, _, rfl⟩ | ⟨_, _, _, rfl⟩ | ⟨_, rfl⟩ | ⟨_, _, _, rfl⟩ | ⟨_, i, rest, _, he⟩
  · simpa using triv _
  · simpa using triv _
  · simpa using triv _
  · cases hc : (s.th t).chain with
    | nil => rw [atexitStep_nil P s t hc]; simpa using triv _
    | cons c cs => rw [atexitStep_cons P s t c cs hc]; simpa using triv _
  · simpa using triv _
  · exact exec_other P s s' t i rest he k hk

theorem step_joinRet (P : Prog) (s s' : State) (t : Nat) (h : step P s t = some s') :
    ∀ k b, s'.log = .joinRet k b :: s.log → (s.th k).status = .exited ∧ (s'.th k).status = .joined ∧ b = t := by
  intro k b hl
  rcases step_cases P s s' t h with ⟨_, rfl⟩ | ⟨_, _, _, rfl⟩ | ⟨_, _, _, rfl⟩ | ⟨_, rfl⟩ | ⟨_, _, _, rfl⟩ | ⟨_, i, rest, _, he⟩
  · simp at hl
  · simp at hl
  · simp at hl
  · cases hc : (s.th t).chain with
    | nil => rw [atexitStep_nil P s t hc] at hl; simp at hl
    | cons c cs => rw [atexitStep_cons P s t c cs hc] at hl; simp at hl
  · simp at hl
  · exact exec_joinRet P s s' t i rest he k b hl

end AwsVerif.Threads
