import AwsVerif.Proofs.C20.Own
import AwsVerif.Proofs.C20.NoLostStep
/-! The hand-over order: a managed thread only ever joins threads that handed themselves over before it did. -/
namespace AwsVerif.Threads

def isLate : Instr → Bool
  | .lock | .unlock | .pjaSwapPush | .joinAndFree _ | .joinM _ | .freeW _ _ | .decCount | .signal => true
  | _ => false

def hasRefI : Instr → Bool
  | .joinM _ => true
  | .joinAndFree l => !l.isEmpty
  | _ => false

theorem exec_late (P : Prog) (s s' : State) (t : Nat) (i : Instr) (rest : List Instr)
    (h : exec P s t i rest = some s') : (i :: rest).all isLate = true → (s'.th t).code.all isLate = true := by
  cases i
  case' act a => cases a
  case' joinAndFree l => cases l
  all_goals exec_split h
  all_goals (
    simp only [cont_th, pushW_th, pushLog_th, freeWrapper_th, upd_same, expand]
    first
    | (simp [List.all_append, List.all_cons, isLate, -List.all_eq_true]; done)
    | ((repeat' split) <;> simp [List.all_append, List.all_cons, isLate, -List.all_eq_true]))

theorem exec_hasRef (P : Prog) (s s' : State) (t : Nat) (i : Instr) (rest : List Instr)
    (h : exec P s t i rest = some s') :
    (s'.th t).code.any hasRefI = true → (i :: rest).any hasRefI = true ∨ i = .pjaSwapPush ∨ i = .jaCheck := by
  cases i
  case' act a => cases a
  case' joinAndFree l => cases l
  all_goals exec_split h
  all_goals (
    simp only [cont_th, pushW_th, pushLog_th, freeWrapper_th, upd_same, expand]
    first
    | (simp [List.any_append, List.any_cons, hasRefI, -List.any_eq_true]; done)
    | ((repeat' split) <;> simp [List.any_append, List.any_cons, hasRefI, -List.any_eq_true] <;>
       (try (intro hh; first | exact hh | exact Or.inr hh | exact Or.inl hh))))

/-- the references in the new code of the stepping thread come from its old code, or from the pending list when
the instruction is one of the two that take it over -/
theorem exec_ownrefs (Q : Nat → Prop) (P : Prog) (s s' : State) (t : Nat) (i : Instr) (rest : List Instr)
    (h : exec P s t i rest = some s')
    (mjt : ∀ k, Instr.joinM k ∈ i :: rest → Q k) (mft : ∀ l, Instr.joinAndFree l ∈ i :: rest → ∀ k, k ∈ l → Q k)
    (mp : (i = .pjaSwapPush ∨ i = .jaCheck) → ∀ k, k ∈ s.pending → Q k) :
    (∀ k, Instr.joinM k ∈ (s'.th t).code → Q k) ∧ (∀ l, Instr.joinAndFree l ∈ (s'.th t).code → ∀ k, k ∈ l → Q k) := by
  cases i
  case' act a => cases a
  case' joinAndFree l => cases l
  all_goals exec_split h
  all_goals (
    simp only [cont_th, pushW_th, pushLog_th, freeWrapper_th, upd_same, expand]
    simp_all [List.mem_cons, List.mem_append])
  all_goals (first
    | assumption
    | exact mft.2
    | (split <;> simp_all <;> assumption))

theorem exec_hoSeq (P : Prog) (s s' : State) (t : Nat) (i : Instr) (rest : List Instr)
    (h : exec P s t i rest = some s') :
    ((s'.th t).hoSeq = (s.th t).hoSeq ∧ s'.hoCtr = s.hoCtr) ∨
    (i = .pjaSwapPush ∧ (s'.th t).hoSeq = s.hoCtr + 1 ∧ s'.hoCtr = s.hoCtr + 1) := by
  cases i
  case' act a => cases a
  case' joinAndFree l => cases l
  all_goals exec_split h
  all_goals (first
    | (simp [cont, pushW, pushLog, freeWrapper]; done)
    | (simp [cont, pushW, pushLog, freeWrapper, upd_apply]; first | assumption | (split <;> simp_all) | (intro hh; simp_all)))

structure HoInv (s : State) : Prop where
  hob : ∀ t, (s.th t).hoSeq ≤ s.hoCtr
  hordM : ∀ t, t ≠ 0 → ∀ k, Instr.joinM k ∈ (s.th t).code → (s.th k).hoSeq < (s.th t).hoSeq
  hordF : ∀ t, t ≠ 0 → ∀ l, Instr.joinAndFree l ∈ (s.th t).code → ∀ k, k ∈ l → (s.th k).hoSeq < (s.th t).hoSeq
  late : ∀ t, t ≠ 0 → (s.th t).code.any hasRefI = true → (s.th t).status = .handedOver
  lateCode : ∀ t, ((s.th t).status = .atexitDone ∨ (s.th t).status = .handedOver) → (s.th t).code.all isLate = true

theorem occ_pos_of_joinM (k : Nat) (c : List Instr) (h : Instr.joinM k ∈ c) : 1 ≤ occ k c := by
  induction c with
  | nil => cases h
  | cons i r ih =>
    rcases List.mem_cons.mp h with rfl | h
    · simp [occ, occI]
    · have := ih h; simp only [occ]; omega

theorem occ_pos_of_jf (k : Nat) (l : List Nat) (c : List Instr) (h : Instr.joinAndFree l ∈ c) (hk : k ∈ l) : 1 ≤ occ k c := by
  induction c with
  | nil => cases h
  | cons i r ih =>
    rcases List.mem_cons.mp h with rfl | h
    · have : 0 < l.count k := List.count_pos_iff.mpr hk
      simp only [occ, occI]; omega
    · have := ih h; simp only [occ]; omega

theorem sumTo_ge (n t : Nat) (f : Nat → Nat) (ht : t < n) : f t ≤ sumTo n f := by
  induction n with
  | zero => omega
  | succ n ih =>
    simp only [sumTo]
    by_cases h : t = n
    · subst h; omega
    · have := ih (by omega); omega

/-- a slot that is referenced from some thread's join code has handed itself over (and not been joined yet) -/
theorem refd_status (P : Prog) (s : State) (k t : Nat) (hk : k < P.n) (ht : t < P.n) (hown : OwnEq P k s)
    (h : 1 ≤ occ k (s.th t).code) : P.managed k = true ∧ ((s.th k).status = .handedOver ∨ (s.th k).status = .exited) := by
  unfold OwnEq at hown
  rw [oPlus_sum P k s hk] at hown
  have := sumTo_ge P.n t (fun j => occ k (s.th j).code) ht
  by_cases hh : P.managed k = true ∧ hoe (s.th k).status = true
  · exact ⟨hh.1, (hoe_iff _).mp hh.2⟩
  · simp [hh] at hown; omega

theorem otherRel_ho {s : State} {k : Nat} {a b : Th} (h : OtherRel s k a b) :
    (b.hoSeq = a.hoSeq ∧ b.code = a.code ∧ (b.status = a.status ∨ (a.status = .exited ∧ b.status = .joined))) ∨
    (a.status = .notCreated ∧ b.hoSeq = 0 ∧ b.code = [] ∧ b.status = .created) := by
  rcases h with rfl | rfl | ⟨h0, _, _, rfl⟩ | ⟨h0, rfl⟩
  · exact Or.inl ⟨rfl, rfl, Or.inl rfl⟩
  · exact Or.inl ⟨rfl, rfl, Or.inl rfl⟩
  · exact Or.inr ⟨h0, rfl, rfl, rfl⟩
  · exact Or.inl ⟨rfl, rfl, Or.inr ⟨h0, rfl⟩⟩

/-- what one step does to the stepping thread's hand-over bookkeeping -/
def HoKey (s s' : State) (t : Nat) : Prop :=
      (((s'.th t).hoSeq = (s.th t).hoSeq ∧ s'.hoCtr = s.hoCtr ∧
          (t ≠ 0 → (∀ k, Instr.joinM k ∈ (s'.th t).code → (s.th k).hoSeq < (s.th t).hoSeq ∧ k ≠ t) ∧
            (∀ l, Instr.joinAndFree l ∈ (s'.th t).code → ∀ k, k ∈ l → (s.th k).hoSeq < (s.th t).hoSeq ∧ k ≠ t))) ∨
        ((s'.th t).hoSeq = s.hoCtr + 1 ∧ s'.hoCtr = s.hoCtr + 1 ∧ (s.th t).status = .atexitDone ∧
          (∀ k, Instr.joinM k ∈ (s'.th t).code → (s.th k).hoSeq ≤ s.hoCtr ∧ k ≠ t) ∧
          (∀ l, Instr.joinAndFree l ∈ (s'.th t).code → ∀ k, k ∈ l → (s.th k).hoSeq ≤ s.hoCtr ∧ k ≠ t))) ∧
      (t ≠ 0 → (s'.th t).code.any hasRefI = true → (s'.th t).status = .handedOver) ∧
      (((s'.th t).status = .atexitDone ∨ (s'.th t).status = .handedOver) → (s'.th t).code.all isLate = true)

theorem hoInv_thr (P : Prog) (hm0 : P.managed 0 = false) (s s' : State) (t : Nat) (h : step P s t = some s')
    (hc : CountInv P s) (hp : PjaInv P s) (hown : ∀ k, OwnEq P k s) (hnw : NoWait s)
    (hfin : ∀ j, ((s.th j).status = .exited ∨ (s.th j).status = .joined) → (s.th j).code = []) (hi : HoInv s) :
    HoInv s' := by
  have hst := ownStep_status' P s s' t h
  have hlt : ∀ j, (s.th j).status ≠ .notCreated → j < P.n := by
    intro j hj
    by_cases hh : j < P.n
    · exact hh
    · exact absurd (hc.big j (by omega)) hj
  have htn := hlt t hst
  have oth := fun j hj => otherRel_ho (step_other P s s' t h j hj)
  -- own record and the counter
  have key : HoKey s s' t := by
    unfold HoKey
    have lt_ne : ∀ k, (s.th k).hoSeq < (s.th t).hoSeq → (s.th k).hoSeq < (s.th t).hoSeq ∧ k ≠ t :=
      fun k hk => ⟨hk, fun e => by subst e; omega⟩
    have quiet : ∀ x : Th, s'.th t = x → x.hoSeq = (s.th t).hoSeq → s'.hoCtr = s.hoCtr →
        (x.code = (s.th t).code ∨ x.code.any hasRefI = false) → (x.code = [] → True) →
        ((x.status = .atexitDone ∨ x.status = .handedOver) → x.code.all isLate = true) →
        (x.code = (s.th t).code → (s.th t).code.any hasRefI = true → x.status = .handedOver) → HoKey s s' t := by
      intro x hx h1 h2 h3 _ h5 h6
      unfold HoKey
      rw [hx]
      refine ⟨Or.inl ⟨h1, h2, fun ht0 => ⟨fun k hm => ?_, fun l hm k hk => ?_⟩⟩, fun ht0 hr => ?_, h5⟩
      · rcases h3 with h3 | h3
        · rw [h3] at hm; exact lt_ne k (hi.hordM t ht0 k hm)
        · exfalso
          have : x.code.any hasRefI = true := List.any_eq_true.mpr ⟨_, hm, rfl⟩
          rw [h3] at this; cases this
      · rcases h3 with h3 | h3
        · rw [h3] at hm; exact lt_ne k (hi.hordF t ht0 l hm k hk)
        · exfalso
          have : x.code.any hasRefI = true :=
            List.any_eq_true.mpr ⟨_, hm, by cases l <;> simp [hasRefI] at hk ⊢⟩
          rw [h3] at this; cases this
      · rcases h3 with h3 | h3
        · exact h6 h3 (by rw [← h3]; exact hr)
        · rw [h3] at hr; cases hr
    rcases step_cases P s s' t h with ⟨hs, rfl⟩ | ⟨hs, _, hcd, rfl⟩ | ⟨hs, _, hcd, rfl⟩ | ⟨hs, e⟩ | ⟨hs, hcd, rfl⟩ | ⟨hs, i, rest, hcd, he⟩
    · refine quiet _ rfl (by simp) rfl (Or.inr ?_) (fun _ => trivial) (by simp) (fun _ hr => ?_)
      · simp [List.any_map, hasRefI]
      · rw [hc.nocode t (Or.inr (Or.inl hs))] at hr; cases hr
    · refine quiet _ rfl (by simp) rfl (Or.inl (by simp)) (fun _ => trivial) (by simp) (fun _ hr => ?_)
      rw [hcd] at hr; cases hr
    · refine quiet _ rfl (by simp) (by unfold funcEndStep; split <;> rfl) (Or.inl (by simp)) (fun _ => trivial) (by simp)
        (fun _ hr => ?_)
      rw [hcd] at hr; cases hr
    · have hc0 := hc.nocode t (Or.inr (Or.inr hs))
      cases hch : (s.th t).chain with
      | nil =>
        rw [atexitStep_nil P s t hch] at e; subst e
        refine quiet _ rfl (by simp) rfl (Or.inr ?_) (fun _ => trivial) (fun _ => ?_) (fun _ hr => ?_)
        · simp only [upd_same]; split <;> simp [handOverCode, hasRefI]
        · simp only [upd_same]; split <;> simp [handOverCode, isLate]
        · rw [hc0] at hr; cases hr
      | cons c cs =>
        rw [atexitStep_cons P s t c cs hch] at e; subst e
        refine quiet _ rfl (by simp [pushLog]) rfl (Or.inl (by simp [pushLog])) (fun _ => trivial) (by simp [pushLog, hs])
          (fun _ hr => ?_)
        rw [hc0] at hr; cases hr
    · refine quiet _ rfl (by simp) rfl (Or.inl (by simp)) (fun _ => trivial) (by simp) (fun _ hr => ?_)
      rw [hcd] at hr; cases hr
    · have hstat := exec_status P s s' t i rest he
      have hpt := hp t
      rw [hcd] at hpt
      have hnja : t ≠ 0 → i ≠ .jaCheck := by
        intro ht0 e
        have := (hnw t ht0).1
        rw [hcd, e] at this
        simp [anyJA, Instr.isJA] at this
      refine ⟨?_, fun ht0 hr => ?_, fun hl => ?_⟩
      · rcases exec_hoSeq P s s' t i rest he with ⟨a, b⟩ | ⟨hip, a, b⟩
        · refine Or.inl ⟨a, b, fun ht0 => ?_⟩
          have hip : ¬ (i = .pjaSwapPush ∨ i = .jaCheck) ∨ True := Or.inr trivial
          by_cases hpj : i = .pjaSwapPush
          · -- impossible: pja changes the sequence number
            exfalso
            subst hpj
            simp only [exec, Option.some.injEq] at he; subst he
            simp [cont] at b
          · refine exec_ownrefs (fun k => (s.th k).hoSeq < (s.th t).hoSeq ∧ k ≠ t) P s s' t i rest he
              (fun k hm => lt_ne k (hi.hordM t ht0 k (by rw [hcd]; exact hm)))
              (fun l hm k hk => lt_ne k (hi.hordF t ht0 l (by rw [hcd]; exact hm) k hk))
              (fun hor => by rcases hor with e | e; exact absurd e hpj; exact absurd e (hnja ht0))
        · subst hip
          simp only [nPja, pjaWant] at hpt
          have hmt : P.managed t = true ∧ (s.th t).status = .atexitDone := by
            by_cases hh : P.managed t = true ∧ (s.th t).status = .atexitDone
            · exact hh
            · simp [hh] at hpt
          have ht0 : t ≠ 0 := by
            intro e; subst e
            rw [hm0] at hmt; exact absurd hmt.1 (by simp)
          have hnp : ∀ k, k ∈ s.pending → k ≠ t := by
            intro k hk e; subst e
            have := hown k
            unfold OwnEq at this
            rw [oPlus_sum P k s htn] at this
            have hcnt : 0 < s.pending.count k := List.count_pos_iff.mpr hk
            simp [hmt.2] at this
            omega
          have r := exec_ownrefs (fun k => (s.th k).hoSeq ≤ s.hoCtr ∧ k ≠ t) P s s' t .pjaSwapPush rest he
            (fun k hm => by
              have := lt_ne k (hi.hordM t ht0 k (by rw [hcd]; exact hm))
              have := hi.hob t; omega)
            (fun l hm k hk => by
              have := lt_ne k (hi.hordF t ht0 l (by rw [hcd]; exact hm) k hk)
              have := hi.hob t; omega)
            (fun _ k hk => ⟨hi.hob k, hnp k hk⟩)
          exact Or.inr ⟨a, b, hmt.2, r.1, r.2⟩
      · rcases exec_hasRef P s s' t i rest he hr with h1 | h1 | h1
        · have := hi.late t ht0 (by rw [hcd]; exact h1)
          rw [hstat, this]; simp
        · subst h1
          simp only [nPja, pjaWant] at hpt
          have : (s.th t).status = .atexitDone := by
            by_cases hh : P.managed t = true ∧ (s.th t).status = .atexitDone
            · exact hh.2
            · simp [hh] at hpt
          rw [hstat, this]; simp
        · exact absurd h1 (hnja ht0)
      · have hold : (s.th t).status = .atexitDone ∨ (s.th t).status = .handedOver := by
          rw [hstat] at hl
          split at hl
          · rename_i hh; exact Or.inl hh.2
          · exact hl
        have := hi.lateCode t hold
        rw [hcd] at this
        exact exec_late P s s' t i rest he this
  unfold HoKey at key
  obtain ⟨k1, k2, k3⟩ := key
  have hoC : s.hoCtr ≤ s'.hoCtr := by rcases k1 with ⟨_, b, _⟩ | ⟨_, b, _⟩ <;> omega
  -- hoSeq of other threads
  have hoO : ∀ j, j ≠ t → (s'.th j).hoSeq = (s.th j).hoSeq ∨ ((s.th j).status = .notCreated ∧ (s'.th j).hoSeq = 0) := by
    intro j hj
    rcases oth j hj with ⟨a, _, _⟩ | ⟨a, b, _, _⟩
    · exact Or.inl a
    · exact Or.inr ⟨a, b⟩
  have hoK : ∀ k', k' ≠ t → (s'.th k').hoSeq ≤ (s.th k').hoSeq := by
    intro k' hk'
    rcases hoO k' hk' with a | ⟨_, a⟩ <;> omega
  -- thread j ≠ t keeps its code: its references keep their order
  have other : ∀ j, j ≠ t → ∀ k, (s'.th j).hoSeq = (s.th j).hoSeq → (s.th k).hoSeq < (s.th j).hoSeq →
      1 ≤ occ k (s.th j).code → (s'.th k).hoSeq < (s'.th j).hoSeq := by
    intro j hjt k a hlt' hocc
    rw [a]
    by_cases hkt : k = t
    · subst hkt
      rcases k1 with ⟨a', _, _⟩ | ⟨_, _, hat, _, _⟩
      · rw [a']; exact hlt'
      · exfalso
        have hjn : j < P.n := hlt j (by
          intro e
          have := hc.nocode j (Or.inl e)
          rw [this] at hocc; simp [occ] at hocc)
        have := (refd_status P s k j htn hjn (hown k) hocc).2
        rw [hat] at this; rcases this with h | h <;> cases h
    · have := hoK k hkt; omega
  -- thread t itself
  have own : t ≠ 0 → ∀ k,
      (((s'.th t).hoSeq = (s.th t).hoSeq ∧ (s.th k).hoSeq < (s.th t).hoSeq ∧ k ≠ t) ∨
       ((s'.th t).hoSeq = s.hoCtr + 1 ∧ (s.th k).hoSeq ≤ s.hoCtr ∧ k ≠ t)) → (s'.th k).hoSeq < (s'.th t).hoSeq := by
    intro _ k hyp
    rcases hyp with ⟨a, b, c⟩ | ⟨a, b, c⟩ <;> (have := hoK k c; omega)
  refine ⟨fun j => ?_, fun j hj0 k hm => ?_, fun j hj0 l hm k hk => ?_, fun j hj0 hr => ?_, fun j hl => ?_⟩
  · by_cases hjt : j = t
    · subst hjt
      rcases k1 with ⟨a, b, _⟩ | ⟨a, b, _⟩
      · rw [a, b]; exact hi.hob j
      · omega
    · rcases hoO j hjt with a | ⟨_, a⟩
      · rw [a]; have := hi.hob j; omega
      · omega
  · by_cases hjt : j = t
    · subst hjt
      refine own hj0 k ?_
      rcases k1 with ⟨a, b, c⟩ | ⟨a, b, c, d, e⟩
      · exact Or.inl ⟨a, (c hj0).1 k hm⟩
      · exact Or.inr ⟨a, d k hm⟩
    · rcases oth j hjt with ⟨a, b, _⟩ | ⟨_, _, b, _⟩
      · rw [b] at hm
        exact other j hjt k a (hi.hordM j hj0 k hm) (occ_pos_of_joinM k _ hm)
      · rw [b] at hm; cases hm
  · by_cases hjt : j = t
    · subst hjt
      refine own hj0 k ?_
      rcases k1 with ⟨a, b, c⟩ | ⟨a, b, c, d, e⟩
      · exact Or.inl ⟨a, (c hj0).2 l hm k hk⟩
      · exact Or.inr ⟨a, e l hm k hk⟩
    · rcases oth j hjt with ⟨a, b, _⟩ | ⟨_, _, b, _⟩
      · rw [b] at hm
        exact other j hjt k a (hi.hordF j hj0 l hm k hk) (occ_pos_of_jf k l _ hm hk)
      · rw [b] at hm; cases hm
  · by_cases hjt : j = t
    · subst hjt; exact k2 hj0 hr
    · rcases oth j hjt with ⟨_, b, c⟩ | ⟨_, _, b, _⟩
      · rw [b] at hr
        have := hi.late j hj0 hr
        rcases c with c | ⟨c, _⟩
        · rw [c]; exact this
        · rw [c] at this; cases this
      · rw [b] at hr; cases hr
  · by_cases hjt : j = t
    · subst hjt; exact k3 hl
    · rcases oth j hjt with ⟨_, b, c⟩ | ⟨_, _, b, _⟩
      · rw [b]
        rcases c with c | ⟨_, c⟩
        · rw [c] at hl; exact hi.lateCode j hl
        · rw [c] at hl; rcases hl with hl | hl <;> cases hl
      · rw [b]; rfl

end AwsVerif.Threads
