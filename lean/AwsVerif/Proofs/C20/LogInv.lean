import AwsVerif.Proofs.C20.Frame
/-! Invariant tying each thread's status and at-exit chain to the observable log (c20_run_once, c20_atexit). -/
namespace AwsVerif.Threads

/-- the thread an event belongs to (function start/end, successful registration, callback) -/
def evOwner : Ev → Option Nat
  | .run k _ => some k
  | .done k => some k
  | .reg k _ true => some k
  | .cb o _ _ => some o
  | _ => none

/-- ids registered by thread `k`, newest first -/
def regsOf (k : Nat) : List Ev → List Nat
  | [] => []
  | .reg j c true :: l => if j = k then c :: regsOf k l else regsOf k l
  | _ :: l => regsOf k l

/-- callbacks of thread `k` that have run, newest first -/
def cbsOf (k : Nat) : List Ev → List Nat
  | [] => []
  | .cb o c _ :: l => if o = k then c :: cbsOf k l else cbsOf k l
  | _ :: l => cbsOf k l

def runCount (k : Nat) : List Ev → Nat
  | [] => 0
  | .run j _ :: l => (if j = k then 1 else 0) + runCount k l
  | _ :: l => runCount k l

theorem regsOf_other (k : Nat) (e : Ev) (l : List Ev) (h : evOwner e ≠ some k) : regsOf k (e :: l) = regsOf k l := by
  cases e <;> simp_all [regsOf, evOwner]
  rename_i j c ok; cases ok <;> simp_all [regsOf, evOwner]
theorem cbsOf_other (k : Nat) (e : Ev) (l : List Ev) (h : evOwner e ≠ some k) : cbsOf k (e :: l) = cbsOf k l := by
  cases e <;> simp_all [cbsOf, evOwner]
theorem runCount_other (k : Nat) (e : Ev) (l : List Ev) (h : evOwner e ≠ some k) : runCount k (e :: l) = runCount k l := by
  cases e <;> simp_all [runCount, evOwner]
theorem plain_owner (e : Ev) (h : e.plain = true) : evOwner e = none := by
  cases e <;> simp_all [Ev.plain, evOwner]
  rename_i j c ok; cases ok <;> simp_all [Ev.plain, evOwner]

/-- per-thread invariant -/
structure ThInv (k : Nat) (th : Th) (L : List Ev) : Prop where
  early : th.status.rank ≤ 1 → regsOf k L = [] ∧ cbsOf k L = [] ∧ th.chain = [] ∧ runCount k L = 0
  arg : th.status = .created → th.wArg = k
  run : th.status.rank = 2 → th.chain = regsOf k L ∧ cbsOf k L = [] ∧ runCount k L = 1
  fdone : th.status.rank = 3 → (cbsOf k L).reverse ++ th.chain = regsOf k L ∧ runCount k L = 1
  late : 4 ≤ th.status.rank → th.chain = [] ∧ (cbsOf k L).reverse = regsOf k L ∧ runCount k L = 1
  main : k = 0 → regsOf k L = []

structure LogInv (s : State) : Prop where
  th : ∀ k, ThInv k (s.th k) s.log
  cbOn : ∀ o c on, Ev.cb o c on ∈ s.log → on = o
  runArg : ∀ k a, Ev.run k a ∈ s.log → a = k
  joined : ∀ k b, Ev.joinRet k b ∈ s.log → (s.th k).status = .joined

theorem logInv_init (P : Prog) : LogInv (init P) := by
  refine ⟨fun k => ?_, ?_, ?_, ?_⟩
  · by_cases hk : k = 0 <;> simp [init, hk] <;> constructor <;> simp [Status.rank, regsOf, cbsOf, runCount]
  all_goals simp [init]

/-- the log grows by at most one event, owned by the stepping thread or by nobody -/
theorem ownStep_log {s s' : State} {t : Nat} (h : OwnStep s s' t) :
    s'.log = s.log ∨ ∃ e, s'.log = e :: s.log ∧ (evOwner e = none ∨ evOwner e = some t) := by
  cases h with
  | start _ _ _ _ hl => exact Or.inr ⟨_, hl, Or.inr rfl⟩
  | exec _ ho =>
    rcases ho.2.2.2 with ⟨_, hl | ⟨e, hl, hp⟩⟩ | ⟨c, _, _, _, hl⟩
    · exact Or.inl hl
    · exact Or.inr ⟨e, hl, Or.inl (plain_owner e hp)⟩
    · exact Or.inr ⟨_, hl, Or.inr rfl⟩
  | funcEnd _ _ _ _ _ hl => exact Or.inr ⟨_, hl, Or.inr rfl⟩
  | exit _ _ _ _ hl => exact Or.inl hl
  | cb c _ _ _ _ hl => exact Or.inr ⟨_, hl, Or.inr rfl⟩
  | atexitDone _ _ _ _ _ hl => exact Or.inl hl

theorem thInv_other {s : State} {k : Nat} {a b : Th} {L L' : List Ev} (hr : OtherRel s k a b)
    (hL : L' = L ∨ ∃ e, L' = e :: L ∧ evOwner e ≠ some k) (hi : ThInv k a L) : ThInv k b L' := by
  have hreg : regsOf k L' = regsOf k L := by
    rcases hL with rfl | ⟨e, rfl, he⟩; rfl; exact regsOf_other k e L he
  have hcb : cbsOf k L' = cbsOf k L := by
    rcases hL with rfl | ⟨e, rfl, he⟩; rfl; exact cbsOf_other k e L he
  have hrun : runCount k L' = runCount k L := by
    rcases hL with rfl | ⟨e, rfl, he⟩; rfl; exact runCount_other k e L he
  rcases hr with rfl | rfl | ⟨hs, _, _, rfl⟩ | ⟨hs, rfl⟩
  · exact ⟨by simpa [hreg, hcb, hrun] using hi.early, hi.arg, by simpa [hreg, hcb, hrun] using hi.run,
      by simpa [hreg, hcb, hrun] using hi.fdone, by simpa [hreg, hcb, hrun] using hi.late, by simpa [hreg] using hi.main⟩
  · exact ⟨by simpa [hreg, hcb, hrun] using hi.early, hi.arg, by simpa [hreg, hcb, hrun] using hi.run,
      by simpa [hreg, hcb, hrun] using hi.fdone, by simpa [hreg, hcb, hrun] using hi.late, by simpa [hreg] using hi.main⟩
  · have h0 := hi.early (by simp [hs, Status.rank])
    constructor <;> simp [Status.rank, hreg, hcb, hrun, h0]
  · have h0 := hi.late (by simp [hs, Status.rank])
    exact ⟨by simp [Status.rank], by simp, by simp [Status.rank], by simp [Status.rank],
      fun _ => by simpa [hreg, hcb, hrun] using h0, by simpa [hreg] using hi.main⟩

theorem thInv_own {s s' : State} {t : Nat} (h : OwnStep s s' t) (hi : ThInv t (s.th t) s.log) :
    ThInv t (s'.th t) s'.log := by
  cases h with
  | start hs hs' hc ha hl =>
    have h0 := hi.early (by simp [hs, Status.rank])
    constructor <;> simp [hs', hl, hc, Status.rank, regsOf, cbsOf, runCount, h0]
  | exec hs ho =>
    obtain ⟨hst, ha, _, hcl⟩ := ho
    rcases hcl with ⟨hc, hl⟩ | ⟨c, hrun, _, hc, hl⟩
    · have hL : s'.log = s.log ∨ ∃ e, s'.log = e :: s.log ∧ evOwner e ≠ some t := by
        rcases hl with hl | ⟨e, hl, hp⟩
        · exact Or.inl hl
        · exact Or.inr ⟨e, hl, by simp [plain_owner e hp]⟩
      have hreg : regsOf t s'.log = regsOf t s.log := by
        rcases hL with h | ⟨e, h, he⟩; rw [h]; rw [h]; exact regsOf_other t e _ he
      have hcb : cbsOf t s'.log = cbsOf t s.log := by
        rcases hL with h | ⟨e, h, he⟩; rw [h]; rw [h]; exact cbsOf_other t e _ he
      have hrn : runCount t s'.log = runCount t s.log := by
        rcases hL with h | ⟨e, h, he⟩; rw [h]; rw [h]; exact runCount_other t e _ he
      rcases hst with hst | ⟨h4, h5⟩
      · exact ⟨by simpa [hst, hc, hreg, hcb, hrn] using hi.early, by rw [hst, ha]; exact hi.arg,
          by simpa [hst, hc, hreg, hcb, hrn] using hi.run, by simpa [hst, hc, hreg, hcb, hrn] using hi.fdone,
          by simpa [hst, hc, hreg, hcb, hrn] using hi.late, by simpa [hreg] using hi.main⟩
      · have h0 := hi.late (by simp [h4, Status.rank])
        have hm := hi.main
        constructor <;> simp [h5, hc, hreg, hcb, hrn, Status.rank, h0]
        simpa [hreg] using hm
    · have h0 := hi.run (by simp [hrun, Status.rank])
      have hst' : (s'.th t).status = .running := by
        rcases hst with hst | ⟨h4, _⟩
        · rw [hst, hrun]
        · rw [hrun] at h4; cases h4
      constructor <;> simp [hst', hl, hc, Status.rank, regsOf, cbsOf, runCount, h0] <;> assumption
  | funcEnd hs hne hs' hc ha hl =>
    have h0 := hi.run (by simp [hs, Status.rank])
    constructor <;> simp [hs', hl, hc, Status.rank, regsOf, cbsOf, runCount, h0]
    exact fun h => absurd h hne
  | exit hs hs' hc ha hl =>
    refine ⟨?_, ?_, ?_, ?_, ?_, ?_⟩
    all_goals try (simp [hs', Status.rank]; done)
    · intro _
      rw [hc, hl]
      rcases hs with ⟨hs, h0⟩ | hs | hs
      · have h1 := hi.run (by simp [hs, Status.rank])
        have h2 := hi.main h0
        simp [h1, h2]
      · exact hi.late (by simp [hs, Status.rank])
      · exact hi.late (by simp [hs, Status.rank])
    · rw [hl]; exact hi.main
  | cb c hs hc hs' ha hl =>
    have h0 := hi.fdone (by simp [hs, Status.rank])
    rw [hc] at h0
    have hm := hi.main
    constructor <;> simp [hs', hl, Status.rank, regsOf, cbsOf, runCount, h0]
    exact hm
  | atexitDone hs hc hc' hs' ha hl =>
    have h0 := hi.fdone (by simp [hs, Status.rank])
    rw [hc] at h0
    have hm := hi.main
    constructor <;> simp [hs', hl, hc', Status.rank]
    · simpa using h0
    · exact hm

/-- the new event of a step, classified -/
theorem ownStep_newEv {s s' : State} {t : Nat} (h : OwnStep s s' t) :
    s'.log = s.log ∨ ∃ e, s'.log = e :: s.log ∧
      (e.plain = true ∨ ((s.th t).status = .created ∧ e = .run t (s.th t).wArg) ∨ e = .done t ∨
        (∃ c, e = .reg t c true) ∨ ∃ c, e = .cb t c t) := by
  cases h with
  | start hs _ _ _ hl => exact Or.inr ⟨_, hl, Or.inr (Or.inl ⟨hs, rfl⟩)⟩
  | exec _ ho =>
    rcases ho.2.2.2 with ⟨_, hl | ⟨e, hl, hp⟩⟩ | ⟨c, _, _, _, hl⟩
    · exact Or.inl hl
    · exact Or.inr ⟨e, hl, Or.inl hp⟩
    · exact Or.inr ⟨_, hl, Or.inr (Or.inr (Or.inr (Or.inl ⟨c, rfl⟩)))⟩
  | funcEnd _ _ _ _ _ hl => exact Or.inr ⟨_, hl, Or.inr (Or.inr (Or.inl rfl))⟩
  | exit _ _ _ _ hl => exact Or.inl hl
  | cb c _ _ _ _ hl => exact Or.inr ⟨_, hl, Or.inr (Or.inr (Or.inr (Or.inr ⟨c, rfl⟩)))⟩
  | atexitDone _ _ _ _ _ hl => exact Or.inl hl

theorem ownStep_status {s s' : State} {t : Nat} (h : OwnStep s s' t) :
    1 ≤ (s.th t).status.rank ∧ (s.th t).status.rank ≤ 5 := by
  cases h with
  | start hs => simp [hs, Status.rank]
  | exec hs => rcases hs with hs | hs | hs <;> simp [hs, Status.rank]
  | funcEnd hs => simp [hs, Status.rank]
  | exit hs => rcases hs with ⟨hs, _⟩ | hs | hs <;> simp [hs, Status.rank]
  | cb c hs => simp [hs, Status.rank]
  | atexitDone hs => simp [hs, Status.rank]

theorem joined_stable (P : Prog) (s s' : State) (t k : Nat) (h : step P s t = some s')
    (hj : (s.th k).status = .joined) : (s'.th k).status = .joined := by
  by_cases hk : k = t
  · subst hk
    have := ownStep_status (step_own P s s' k h)
    simp [hj, Status.rank] at this
  · rcases step_other P s s' t h k hk with h1 | h1 | ⟨h1, _⟩ | ⟨h1, _⟩
    · rw [h1]; exact hj
    · rw [h1]; exact hj
    · rw [hj] at h1; cases h1
    · rw [hj] at h1; cases h1

theorem logInv_step (P : Prog) (s s' : State) (l : Label) (h : stepL P s l = some s') (hi : LogInv s) : LogInv s' := by
  cases l with
  | tick d =>
    simp only [stepL, Option.some.injEq] at h; subst h
    exact ⟨hi.th, hi.cbOn, hi.runArg, hi.joined⟩
  | spur t =>
    simp only [stepL] at h
    split at h
    · simp only [Option.some.injEq] at h; subst h
      refine ⟨fun k => ?_, hi.cbOn, hi.runArg, fun k b hm => ?_⟩
      · by_cases hk : k = t
        · subst hk
          simp only [upd_same]
          exact thInv_other (s := s) (Or.inr (Or.inl rfl)) (Or.inl rfl) (hi.th k)
        · simp only [upd_apply, hk, if_false]; exact hi.th k
      · have := hi.joined k b hm
        by_cases hk : k = t
        · subst hk; simpa using this
        · simpa [upd_apply, hk] using this
    · simp at h
  | thr t =>
    simp only [stepL] at h
    have own := step_own P s s' t h
    have oth := step_other P s s' t h
    have hlog := ownStep_log own
    have hnew := ownStep_newEv own
    refine ⟨fun k => ?_, ?_, ?_, ?_⟩
    · by_cases hk : k = t
      · subst hk; exact thInv_own own (hi.th k)
      · refine thInv_other (oth k hk) ?_ (hi.th k)
        rcases hlog with hl | ⟨e, hl, he⟩
        · exact Or.inl hl
        · refine Or.inr ⟨e, hl, ?_⟩
          rcases he with he | he <;> rw [he] <;> simp
          exact fun h => hk h.symm
    · intro o c on hm
      rcases hnew with hl | ⟨e, hl, he⟩
      · rw [hl] at hm; exact hi.cbOn o c on hm
      · rw [hl] at hm
        rcases List.mem_cons.mp hm with hm | hm
        · subst hm
          rcases he with he | ⟨_, he⟩ | he | ⟨c', he⟩ | ⟨c', he⟩
          · simp [Ev.plain] at he
          · cases he
          · cases he
          · cases he
          · cases he; rfl
        · exact hi.cbOn o c on hm
    · intro k a hm
      rcases hnew with hl | ⟨e, hl, he⟩
      · rw [hl] at hm; exact hi.runArg k a hm
      · rw [hl] at hm
        rcases List.mem_cons.mp hm with hm | hm
        · subst hm
          rcases he with he | ⟨hs, he⟩ | he | ⟨c', he⟩ | ⟨c', he⟩
          · simp [Ev.plain] at he
          · cases he; exact (hi.th t).arg hs
          · cases he
          · cases he
          · cases he
        · exact hi.runArg k a hm
    · intro k b hm
      rcases hlog with hl | ⟨e, hl, _⟩
      · rw [hl] at hm; exact joined_stable P s s' t k h (hi.joined k b hm)
      · rw [hl] at hm
        rcases List.mem_cons.mp hm with hm | hm
        · subst hm; exact (step_joinRet P s s' t h k b hl).2.1
        · exact joined_stable P s s' t k h (hi.joined k b hm)

/-- history form of "before join returns": everything thread `k` ever logs is older than the `joinRet k` event -/
def JoinSplit (s : State) : Prop :=
  ∀ k b l1 l2, s.log = l1 ++ Ev.joinRet k b :: l2 →
    (cbsOf k l2).reverse = regsOf k l2 ∧ runCount k l2 = 1 ∧ ∀ e ∈ l1, evOwner e ≠ some k

theorem joinSplit_step (P : Prog) (s s' : State) (l : Label) (h : stepL P s l = some s') (hi : LogInv s)
    (hj : JoinSplit s) : JoinSplit s' := by
  cases l with
  | tick d => simp only [stepL, Option.some.injEq] at h; subst h; exact hj
  | spur t =>
    simp only [stepL] at h
    split at h
    · simp only [Option.some.injEq] at h; subst h; exact hj
    · simp at h
  | thr t =>
    simp only [stepL] at h
    have own := step_own P s s' t h
    rcases ownStep_log own with hl | ⟨e, hl, he⟩
    · intro k b l1 l2 hs; rw [hl] at hs; exact hj k b l1 l2 hs
    · intro k b l1 l2 hs
      rw [hl] at hs
      cases l1 with
      | nil =>
        simp only [List.nil_append, List.cons.injEq] at hs
        obtain ⟨rfl, rfl⟩ := hs
        have hx := (step_joinRet P s s' t h k b hl).1
        have hlate := (hi.th k).late (by simp [hx, Status.rank])
        exact ⟨hlate.2.1, hlate.2.2, by simp⟩
      | cons e' l1 =>
        simp only [List.cons_append, List.cons.injEq] at hs
        obtain ⟨rfl, hs⟩ := hs
        obtain ⟨h1, h2, h3⟩ := hj k b l1 l2 hs
        refine ⟨h1, h2, ?_⟩
        intro x hx
        rcases List.mem_cons.mp hx with rfl | hx
        · have hjd : (s.th k).status = .joined := hi.joined k b (by rw [hs]; simp)
          rcases he with he | he <;> rw [he] <;> simp
          intro htk; subst htk
          have := ownStep_status own
          simp [hjd, Status.rank] at this
        · exact h3 x hx

theorem logInv_reachable (P : Prog) (s : State) (h : Reachable P s) : LogInv s ∧ JoinSplit s := by
  induction h with
  | init => exact ⟨logInv_init P, by intro k b l1 l2 hs; simp [init] at hs⟩
  | step l _ hs ih => exact ⟨logInv_step P _ _ l hs ih.1, joinSplit_step P _ _ l hs ih.1 ih.2⟩

end AwsVerif.Threads
