import AwsVerif.Proofs.C20.Wrap
import AwsVerif.Proofs.C20.JoinAll
namespace AwsVerif.Threads

theorem exec_cb (P : Prog) (s s' : State) (t : Nat) (i : Instr) (rest : List Instr)
    (h : exec P s t i rest = some s') :
    s'.cbLive + (s.th t).chain.length = s.cbLive + (s'.th t).chain.length := by
  cases i
  case' act a => cases a
  case' joinAndFree l => cases l
  all_goals exec_split h
  all_goals (first
    | (simp; done)
    | (simp [upd_apply]; first | omega | (split <;> simp_all)))

theorem exec_named (P : Prog) (s s' : State) (t : Nat) (i : Instr) (rest : List Instr)
    (h : exec P s t i rest = some s') : (s'.th t).named = (s.th t).named := by
  cases i
  case' act a => cases a
  case' joinAndFree l => cases l
  all_goals exec_split h
  all_goals (first
    | (simp; done)
    | (simp [upd_apply]; first | assumption | (split <;> simp_all) | (intro hh; simp_all)))

structure WrapInv (P : Prog) (s : State) : Prop where
  eq : WEq P s
  suf : ∀ k, aSuf (s.th k).code
  cb : s.cbLive = sumTo P.n (fun k => (s.th k).chain.length)
  nm : ∀ k, (s.th k).named = true → (s.th k).status = .created

theorem otherRel_chain {s : State} {k : Nat} {a b : Th} (h : OtherRel s k a b) (h0 : a.status = .notCreated → a.chain = []) :
    b.chain = a.chain := by
  rcases h with rfl | rfl | ⟨hs, _, _, rfl⟩ | ⟨_, rfl⟩
  · rfl
  · rfl
  · simp [h0 hs]
  · rfl

theorem wrapInv_upd_self (P : Prog) (s s' : State) (t : Nat) (x : Th) (hi : WrapInv P s) (ht : t < P.n)
    (hth : s'.th = upd s.th t x)
    (hW : s'.wLive + wwMinus x + wwPlus P t (s.th t) = s.wLive + wwMinus (s.th t) + wwPlus P t x)
    (hsuf : aSuf x.code)
    (hcb : s'.cbLive + (s.th t).chain.length = s.cbLive + x.chain.length)
    (hnm : x.named = true → x.status = .created) : WrapInv P s' := by
  refine ⟨wEq_upd1 P s s' t x hi.eq ht hth hW, fun k => ?_, ?_, fun k hk => ?_⟩
  · by_cases hk : k = t
    · subst hk; rw [hth]; simpa using hsuf
    · rw [hth]; simpa [upd_apply, hk] using hi.suf k
  · have h1 := sumTo_upd1 P.n t (fun k => (s.th k).chain.length) (fun k => (s'.th k).chain.length) ht
      (fun j _ hj => by simp [hth, hj])
    have := hi.cb
    simp only [hth, upd_same] at h1 ⊢
    omega
  · by_cases hkt : k = t
    · subst hkt; rw [hth] at hk ⊢; simp at hk ⊢; exact hnm hk
    · rw [hth] at hk ⊢; simp [upd_apply, hkt] at hk ⊢; exact hi.nm k hk

theorem holds_active (P : Prog) (k : Nat) (st st' : Status)
    (h : (st = .atexitDone ∨ st = .handedOver ∨ st = .funcDone) ∧ (st' = .atexitDone ∨ st' = .handedOver ∨ st' = .exited)) :
    holds P k st = holds P k st' := by
  obtain ⟨h1, h2⟩ := h
  rcases h1 with rfl | rfl | rfl <;> rcases h2 with rfl | rfl | rfl <;> simp [holds]

theorem wrapInv_thr (P : Prog) (hm0 : P.managed 0 = false) (s s' : State) (t : Nat) (h : step P s t = some s')
    (hc : CountInv P s) (hl : LogInv s) (hr : RefInv s) (hi : WrapInv P s) : WrapInv P s' := by
  have hlt : ∀ k, (s.th k).status ≠ .notCreated → k < P.n := by
    intro k hk
    by_cases hkn : k < P.n
    · exact hkn
    · exact absurd (hc.big k (by omega)) hk
  -- a thread that is past `created` has released its name
  have hnf : (s.th t).status ≠ .created → (s.th t).named = false := by
    intro hne
    cases hh : (s.th t).named
    · rfl
    · exact absurd (hi.nm t hh) hne
  rcases step_cases P s s' t h with ⟨hs, rfl⟩ | ⟨hs, ht0, hcd, rfl⟩ | ⟨hs, ht0, hcd, rfl⟩ | ⟨hs, rfl⟩ | ⟨hs, hcd, rfl⟩ | ⟨hs, i, rest, hcd, he⟩
  · -- start: the name string (if any) is applied and released
    have ht := hlt t (by rw [hs]; simp)
    have hc0 := hc.nocode t (Or.inr (Or.inl hs))
    have hpos : (s.th t).named.toNat ≤ s.wLive := by
      have h1 : sumTo P.n (fun j => wwMinus (s.th j)) + (s.th t).named.toNat ≤ sumTo P.n (fun j => wwPlus P j (s.th j)) := by
        refine sumTo_ltn P.n t _ _ _ ht (fun j _ => ?_) ?_
        · have := aSuf_le _ (hi.suf j); simp only [wwMinus, wwPlus]; omega
        · simp only [wwMinus, wwPlus, nameHeld, hc0, wsum]; omega
      have := hi.eq; unfold WEq at this; omega
    refine wrapInv_upd_self P s _ t _ hi ht (startStep_th P s t) ?_ (aSuf_map_act _) rfl (by simp)
    simp [wwMinus, wwPlus, nameHeld, hc0, hs, wsum, wsum_map_act, startStep, pushW, pushLog, holds]
    omega
  · have ht := hlt t (by rw [hs]; simp)
    have hn := hnf (by rw [hs]; simp)
    refine wrapInv_upd_self P s _ t _ hi ht (exitStep_th s t) ?_ (hi.suf t) rfl (by simp [hn])
    subst ht0
    simp [wwMinus, wwPlus, nameHeld, holds]
  · -- function returns: an unmanaged thread frees its wrapper
    have ht := hlt t (by rw [hs]; simp)
    have hn := hnf (by rw [hs]; simp)
    by_cases hmg : P.managed t = true
    · refine wrapInv_upd_self P s _ t _ hi ht (funcEndStep_th P s t) ?_ (hi.suf t) ?_ (by simp [hn])
      · simp [funcEndStep, hmg, wwMinus, wwPlus, nameHeld, hs, holds, pushLog]
      · simp [funcEndStep, hmg, pushLog]
    · have hpos : 1 ≤ s.wLive := by
        have h1 : sumTo P.n (fun j => wwMinus (s.th j)) + 1 ≤ sumTo P.n (fun j => wwPlus P j (s.th j)) := by
          refine sumTo_lt P.n t _ _ ht (fun j _ => ?_) ?_
          · have := aSuf_le _ (hi.suf j); simp only [wwMinus, wwPlus]; omega
          · have := aSuf_le _ (hi.suf t); simp only [wwMinus, wwPlus, hs, holds, ht0, hmg]; simp; omega
        have := hi.eq; unfold WEq at this; omega
      refine wrapInv_upd_self P s _ t _ hi ht (funcEndStep_th P s t) ?_ (hi.suf t) ?_ (by simp [hn])
      · simp [funcEndStep, hmg, wwMinus, wwPlus, nameHeld, hs, holds, pushLog, freeWrapper, ht0]; omega
      · simp [funcEndStep, hmg, pushLog, freeWrapper]
  · have ht := hlt t (by rw [hs]; simp)
    have hn := hnf (by rw [hs]; simp)
    have hc0 := hc.nocode t (Or.inr (Or.inr hs))
    cases hch : (s.th t).chain with
    | nil =>
      rw [atexitStep_nil P s t hch]
      refine wrapInv_upd_self P s _ t _ hi ht rfl ?_ ?_ (by simp [hch]) (by simp [hn])
      · simp only [wwMinus, wwPlus, nameHeld, hc0, hs]
        rw [holds_active P t .funcDone .atexitDone (by simp)]
        split <;> simp [handOverCode, wsum, aPlus, aMinus]
      · simp only; split <;> simp [handOverCode, aSuf, wsum, aPlus, aMinus]
    | cons c cs =>
      rw [atexitStep_cons P s t c cs hch]
      have hcbpos : 1 ≤ s.cbLive := by
        have h1 : 1 ≤ sumTo P.n (fun k => (s.th k).chain.length) := by
          have := sumTo_lt P.n t (fun _ => 0) (fun k => (s.th k).chain.length) ht (fun j _ => Nat.zero_le _)
            (by simp [hch])
          rw [sumTo_zero] at this; omega
        have := hi.cb; omega
      refine wrapInv_upd_self P s _ t _ hi ht rfl ?_ (hi.suf t) ?_ (by simp [hn])
      · simp [wwMinus, wwPlus, nameHeld, pushLog]
      · simp [pushLog, hch]; omega
  · have ht := hlt t (by rcases hs with hs | hs <;> rw [hs] <;> simp)
    have hn := hnf (by rcases hs with hs | hs <;> rw [hs] <;> simp)
    refine wrapInv_upd_self P s _ t _ hi ht (exitStep_th s t) ?_ (hi.suf t) rfl (by simp [hn])
    have : holds P t (s.th t).status = holds P t .exited := by
      rcases hs with hs | hs <;> rw [hs] <;> exact holds_active P t _ _ (by simp)
    simp [wwMinus, wwPlus, nameHeld, this]
  · have hne : (s.th t).status ≠ .notCreated := by rcases hs with hs | hs | hs <;> rw [hs] <;> simp
    have hn := hnf (by rcases hs with hs | hs | hs <;> rw [hs] <;> simp)
    have ht := hlt t hne
    have oth := exec_other P s s' t i rest he
    have hsuf := hi.suf t
    rw [hcd] at hsuf
    refine ⟨exec_wEq P s s' t i rest hcd ht hc.big (fun k hk => hc.nocode k (Or.inl hk)) hc.memb hi.suf hm0
      (fun k hm => hr.copy k (hr.refs.mj t k hm)) hi.nm he hi.eq, fun k => ?_, ?_, fun k hk => ?_⟩
    · by_cases hkt : k = t
      · subst hkt; exact exec_aSuf P s s' k i rest hsuf he
      · rcases otherRel_code (oth k hkt) with h1 | h1 <;> rw [h1]
        · exact hi.suf k
        · trivial
    · have h1 := sumTo_upd1 P.n t (fun k => (s.th k).chain.length) (fun k => (s'.th k).chain.length) ht
        (fun j _ hj => by
          rw [otherRel_chain (oth j hj) (fun h0 => ((hl.th j).early (by simp [h0, Status.rank])).2.2.1)])
      have h2 := exec_cb P s s' t i rest he
      have := hi.cb
      omega
    · by_cases hkt : k = t
      · subst hkt; rw [exec_named P s s' k i rest he, hn] at hk; cases hk
      · rcases oth k hkt with h1 | h1 | ⟨_, _, _, h1⟩ | ⟨h0, h1⟩
        · rw [h1] at hk ⊢; exact hi.nm k hk
        · rw [h1] at hk ⊢; exact hi.nm k hk
        · rw [h1]
        · rw [h1] at hk; have := hi.nm k hk; rw [h0] at this; cases this

theorem wrapInv_congr (P : Prog) (s s' : State) (hi : WrapInv P s)
    (hth : ∀ k, (s'.th k).code = (s.th k).code ∧ (s'.th k).status = (s.th k).status ∧ (s'.th k).chain = (s.th k).chain ∧
      (s'.th k).named = (s.th k).named)
    (hw : s'.wLive = s.wLive) (hcb : s'.cbLive = s.cbLive) : WrapInv P s' := by
  refine ⟨?_, fun k => by rw [(hth k).1]; exact hi.suf k, ?_, fun k hk => ?_⟩
  · unfold WEq
    rw [hw, sumTo_congr P.n _ (fun k => wwMinus (s.th k)) (fun j _ => by simp [wwMinus, (hth j).1]),
      sumTo_congr P.n (fun k => wwPlus P k (s'.th k)) (fun k => wwPlus P k (s.th k))
        (fun j _ => by simp [wwPlus, nameHeld, (hth j).1, (hth j).2.1, (hth j).2.2.2])]
    exact hi.eq
  · rw [hcb, sumTo_congr P.n (fun k => (s'.th k).chain.length) (fun k => (s.th k).chain.length)
      (fun j _ => by rw [(hth j).2.2.1])]
    exact hi.cb
  · rw [(hth k).2.2.2] at hk; rw [(hth k).2.1]; exact hi.nm k hk

theorem wrapInv_init (P : Prog) : WrapInv P (init P) := by
  have hcode : ∀ k, ((init P).th k).code = [] := by intro k; simp only [init]; split <;> rfl
  have hchain : ∀ k, ((init P).th k).chain = [] := by intro k; simp only [init]; split <;> rfl
  have hnamed : ∀ k, ((init P).th k).named = false := by intro k; simp only [init]; split <;> rfl
  refine ⟨?_, fun k => by rw [hcode]; trivial, ?_, fun k hk => by rw [hnamed] at hk; cases hk⟩
  · unfold WEq
    have h1 : sumTo P.n (fun k => wwMinus ((init P).th k)) = 0 := by
      rw [← sumTo_zero P.n]; apply sumTo_congr; intro j _; simp [wwMinus, hcode, wsum]
    have h2 : sumTo P.n (fun k => wwPlus P k ((init P).th k)) = 0 := by
      rw [← sumTo_zero P.n]; apply sumTo_congr; intro j _
      simp only [wwPlus, nameHeld, hcode, hnamed, wsum]
      by_cases hj : j = 0
      · subst hj; simp [holds]
      · simp [init, hj]
    rw [h1, h2]; rfl
  · have : sumTo P.n (fun k => ((init P).th k).chain.length) = 0 := by
      rw [← sumTo_zero P.n]; apply sumTo_congr; intro j _; simp [hchain]
    rw [this]; rfl

theorem wrapInv_reachable (P : Prog) (hn : 0 < P.n) (hm0 : P.managed 0 = false) (s : State) (h : Reachable P s) :
    WrapInv P s := by
  induction h with
  | init => exact wrapInv_init P
  | @step s s' l hr hs ih =>
    have hc := countInv_reachable P hn hm0 s hr
    have hl := (logInv_reachable P s hr).1
    cases l with
    | thr t => exact wrapInv_thr P hm0 s s' t hs hc hl (refInv_reachable P s hr) ih
    | tick d =>
      simp only [stepL, Option.some.injEq] at hs; subst hs
      exact wrapInv_congr P s _ ih (fun k => ⟨rfl, rfl, rfl, rfl⟩) rfl rfl
    | spur t =>
      simp only [stepL] at hs
      split at hs
      · simp only [Option.some.injEq] at hs; subst hs
        refine wrapInv_congr P s _ ih (fun k => ?_) rfl rfl
        by_cases hk : k = t
        · subst hk; simp
        · simp [upd_apply, hk]
      · simp at hs

/-- when every thread is finished and the managed count is 0, no wrapper and no at-exit record is live -/
theorem no_leak_final (P : Prog) (s : State) (hc : CountInv P s) (hl : LogInv s) (hw : WrapInv P s)
    (hfin : ∀ k, k < P.n → (s.th k).code = [] ∧
      ((s.th k).status = .notCreated ∨ (s.th k).status = .exited ∨ (s.th k).status = .joined))
    (h0 : s.count = 0) : s.wLive = 0 ∧ s.cbLive = 0 := by
  constructor
  · have h1 : sumTo P.n (fun k => wwMinus (s.th k)) = 0 := by
      rw [← sumTo_zero P.n]; apply sumTo_congr; intro j hj; simp [wwMinus, (hfin j hj).1, wsum]
    have h2 : sumTo P.n (fun k => wwPlus P k (s.th k)) = 0 := by
      rw [← sumTo_zero P.n]; apply sumTo_congr; intro j hj
      have hnm0 : (s.th j).named = false := by
        cases hh : (s.th j).named
        · rfl
        · have := hw.nm j hh
          rcases (hfin j hj).2 with h | h | h <;> rw [h] at this <;> cases this
      simp only [wwPlus, nameHeld, hnm0, (hfin j hj).1, wsum, Nat.zero_add]
      unfold holds
      by_cases hj0 : j = 0
      · simp [hj0]
      · by_cases hm : P.managed j = true
        · have := count_zero_no_live P s hc h0 j hj hm
          simp [hj0, hm, this]
        · rcases (hfin j hj).2 with h | h | h <;> simp [hj0, hm, h]
    have := hw.eq
    unfold WEq at this
    omega
  · have : sumTo P.n (fun k => (s.th k).chain.length) = 0 := by
      rw [← sumTo_zero P.n]; apply sumTo_congr; intro j hj
      rcases (hfin j hj).2 with h | h | h
      · simp [((hl.th j).early (by simp [h, Status.rank])).2.2.1]
      · simp [((hl.th j).late (by simp [h, Status.rank])).1]
      · simp [((hl.th j).late (by simp [h, Status.rank])).1]
    have := hw.cb
    omega

end AwsVerif.Threads
