import AwsVerif.Proofs.C20.Mutex
/-! Lost-wake-up freedom of the join-all condition wait (main thread is the only waiter). -/
namespace AwsVerif.Threads

/-- instructions that only occur in the code of `aws_thread_join_all_managed` -/
def Instr.isJA : Instr → Bool
  | .act .joinAll | .jaBegin | .readTo | .jaInit | .jaLoop | .waitPred | .waitForPredInit | .waitForPred
  | .cwait _ | .cwake | .jaCheck | .jaRet _ _ => true
  | _ => false

def anyJA (l : List Instr) : Bool := l.any Instr.isJA

/-- new code only contains join-all instructions if the old code did -/
theorem exec_isJA (P : Prog) (s s' : State) (t : Nat) (i : Instr) (rest : List Instr)
    (h : exec P s t i rest = some s') : anyJA (s'.th t).code = true → anyJA (i :: rest) = true := by
  unfold anyJA
  cases i
  case' act a => cases a
  case' joinAndFree l => cases l
  all_goals exec_split h
  all_goals (
    simp only [cont_th, pushW_th, pushLog_th, freeWrapper_th, upd_same, expand]
    first
    | (simp [List.any_append, List.any_cons, Instr.isJA]; done)
    | ((repeat' split) <;> simp [List.any_append, List.any_cons, Instr.isJA]))

theorem exec_waiting (P : Prog) (s s' : State) (t : Nat) (i : Instr) (rest : List Instr)
    (h : exec P s t i rest = some s') :
    (s'.th t).waiting = true → (s.th t).waiting = true ∨ i.isJA = true := by
  cases i
  case' act a => cases a
  case' joinAndFree l => cases l
  all_goals exec_split h
  all_goals (
    simp only [cont_th, pushW_th, pushLog_th, freeWrapper_th, upd_same]
    first
    | (simp [Instr.isJA]; done)
    | (intro hh; exact Or.inl hh)
    | (simp only [upd_apply]; split <;> simp_all))

theorem anyJA_map_act (l : List Action) : anyJA (l.map Instr.act) = true → Action.joinAll ∈ l := by
  induction l with
  | nil => simp [anyJA]
  | cons a r ih =>
    intro h
    simp only [anyJA, List.map_cons, List.any_cons, Bool.or_eq_true] at h
    rcases h with h | h
    · cases a <;> simp [Instr.isJA] at h ⊢
    · exact List.mem_cons_of_mem _ (ih h)

/-- only the main thread runs join-all code or waits on the condition variable -/
def NoWait (s : State) : Prop := ∀ t, t ≠ 0 → anyJA (s.th t).code = false ∧ (s.th t).waiting = false

theorem otherRel_waiting {s : State} {k : Nat} {a b : Th} (h : OtherRel s k a b) : b.waiting = a.waiting ∨ b.waiting = false := by
  rcases h with rfl | rfl | ⟨_, _, _, rfl⟩ | ⟨_, rfl⟩ <;> simp

theorem noWait_thr (P : Prog) (hja : ∀ k, k ≠ 0 → Action.joinAll ∉ P.body k) (s s' : State) (t : Nat)
    (h : step P s t = some s') (hi : NoWait s) (hw : ∀ k, (s.th k).status = .created → (s.th k).wFunc = k) :
    NoWait s' := by
  intro j hj
  by_cases hjt : j = t
  · subst hjt
    obtain ⟨h1, h2⟩ := hi j hj
    rcases step_cases P s s' j h with ⟨hs, rfl⟩ | ⟨hs, _, hc, rfl⟩ | ⟨hs, _, hc, rfl⟩ | ⟨hs, rfl⟩ | ⟨hs, hc, rfl⟩ | ⟨hs, i, rest, hc, he⟩
    · refine ⟨?_, by simpa using h2⟩
      simp only [startStep_th, upd_same]
      cases hh : anyJA (List.map Instr.act (P.body (s.th j).wFunc))
      · rfl
      · have := anyJA_map_act _ hh
        rw [hw j hs] at this
        exact absurd this (hja j hj)
    · exact ⟨by simpa using h1, by simpa using h2⟩
    · exact ⟨by simpa using h1, by simpa using h2⟩
    · cases hch : (s.th j).chain with
      | nil =>
        rw [atexitStep_nil P s j hch]
        refine ⟨?_, by simpa using h2⟩
        simp only [upd_same]; split <;> simp [handOverCode, anyJA, Instr.isJA]
      | cons c cs =>
        rw [atexitStep_cons P s j c cs hch]
        exact ⟨by simpa using h1, by simpa using h2⟩
    · exact ⟨by simpa using h1, by simpa using h2⟩
    · rw [hc] at h1
      have h3 : anyJA (s'.th j).code = false := by
        cases hh : anyJA (s'.th j).code
        · rfl
        · rw [exec_isJA P s s' j i rest he hh] at h1; cases h1
      refine ⟨h3, ?_⟩
      cases hh : (s'.th j).waiting
      · rfl
      · rcases exec_waiting P s s' j i rest he hh with h4 | h4
        · rw [h2] at h4; cases h4
        · simp only [anyJA, List.any_cons, h4, Bool.true_or] at h1; cases h1
  · obtain ⟨h1, h2⟩ := hi j hj
    have o := step_other P s s' t h j hjt
    refine ⟨?_, ?_⟩
    · rcases otherRel_code o with h3 | h3 <;> rw [h3]
      · exact h1
      · rfl
    · rcases otherRel_waiting o with h3 | h3 <;> rw [h3]
      exact h2

/-- every `count--` is immediately followed by the notify -/
def decSig : List Instr → Prop
  | [] => True
  | .decCount :: r => (∃ r', r = .signal :: r') ∧ decSig r
  | _ :: r => decSig r

theorem decSig_tail (i : Instr) (r : List Instr) (h : decSig (i :: r)) : decSig r := by
  cases i <;> first | exact h | exact h.2

theorem decSig_map_act (l : List Action) : decSig (l.map Instr.act) := by
  induction l with
  | nil => trivial
  | cons a r ih => simpa [decSig] using ih

theorem exec_decSig (P : Prog) (s s' : State) (t : Nat) (i : Instr) (rest : List Instr)
    (hd : decSig (i :: rest)) (h : exec P s t i rest = some s') : decSig (s'.th t).code := by
  have h2 := decSig_tail i rest hd
  cases i
  case' act a => cases a
  case' joinAndFree l => cases l
  all_goals exec_split h
  all_goals (
    simp only [cont_th, pushW_th, pushLog_th, freeWrapper_th, upd_same, expand]
    first
    | exact h2
    | ((repeat' split) <;> simp [decSig, h2]))

theorem exec_count_frame (P : Prog) (s s' : State) (t : Nat) (i : Instr) (rest : List Instr)
    (h : exec P s t i rest = some s') :
    s'.count = s.count ∨ (i = .incCount ∧ s'.count = s.count + 1) ∨ (i = .decCount ∧ s'.count = s.count - 1) := by
  cases i
  case' act a => cases a
  case' joinAndFree l => cases l
  all_goals exec_split h
  all_goals simp

theorem exec_lock_frame (P : Prog) (s s' : State) (t : Nat) (i : Instr) (rest : List Instr)
    (h : exec P s t i rest = some s') :
    s'.lockOwner = s.lockOwner ∨ (i = .lock ∧ s.lockOwner = none) ∨ (i = .unlock ∧ s.lockOwner = some t) ∨
      (∃ b, i = .cwait b) ∨ i = .cwake := by
  cases i
  case' act a => cases a
  case' joinAndFree l => cases l
  all_goals exec_split h
  all_goals simp_all

/-- the head of the new code of the stepping thread is a `cwait` only when a predicate loop has just
found count > 1 (or it was already the second instruction) -/
theorem exec_cwait_head (P : Prog) (s s' : State) (t : Nat) (i : Instr) (rest : List Instr)
    (h : exec P s t i rest = some s') (b : Bool) (r : List Instr) (hc : (s'.th t).code = .cwait b :: r) :
    (2 ≤ s.count ∧ s'.count = s.count) ∨ (∃ r', rest = .cwait b :: r') := by
  cases i
  case' act a => cases a
  case' joinAndFree l => cases l
  all_goals exec_split h
  all_goals (
    simp only [cont_th, pushW_th, pushLog_th, freeWrapper_th, upd_same, expand, cont_count] at hc ⊢
    first
    | (exact Or.inr ⟨r, hc⟩)
    | (simp at hc; done)
    | ((repeat' split at hc) <;> simp at hc <;>
       first | omega | exact Or.inr ⟨r, hc⟩ | exact Or.inr ⟨r, hc.2⟩ | (refine Or.inl ⟨?_, trivial⟩; omega) | (refine Or.inl ?_; omega))
    | (simp at hc ⊢; omega))

/-- a `cwait` is not buried in the tail of the new code unless it was in the tail of the old one -/
theorem exec_cwait_tail (P : Prog) (s s' : State) (t : Nat) (i : Instr) (rest : List Instr)
    (h : exec P s t i rest = some s') (b : Bool) (hr : Instr.cwait b ∉ rest) :
    Instr.cwait b ∉ (s'.th t).code.tail := by
  cases i
  case' act a => cases a
  case' joinAndFree l => cases l
  all_goals exec_split h
  all_goals (
    simp only [cont_th, pushW_th, pushLog_th, freeWrapper_th, upd_same, expand]
    first
    | (intro hh; exact hr (List.mem_of_mem_tail hh))
    | ((repeat' split) <;> simp [hr] <;> (intro hh; exact hr (List.mem_of_mem_tail hh))))

theorem pickWaiter_main (s : State) (n : Nat) (h0 : eligible s 0 = true) (hn : ∀ j, j ≠ 0 → eligible s j = false) :
    pickWaiter s (n + 1) = some 0 := by
  induction n with
  | zero => simp [pickWaiter, h0]
  | succ n ih =>
    show pickWaiter s (n + 1 + 1) = some 0
    unfold pickWaiter
    rw [ih]
    simp [hn (n + 1) (by omega)]

theorem exec_signal_wakes (P : Prog) (s s' : State) (t : Nat) (rest : List Instr) (j : Nat) (hjt : j ≠ t)
    (hp : pickWaiter s P.n = some j) (h : exec P s t .signal rest = some s') : (s'.th j).woken = true := by
  simp only [exec, hp] at h
  simp only [Option.some.injEq] at h; subst h
  simp [upd_apply, hjt]

theorem exec_decCount (P : Prog) (s s' : State) (t : Nat) (rest : List Instr)
    (h : exec P s t .decCount rest = some s') : (s'.th t).code = rest ∧ s'.lockOwner = s.lockOwner := by
  simp only [exec, Option.some.injEq] at h; subst h; simp

theorem exec_waiting_cwait (P : Prog) (s s' : State) (t : Nat) (i : Instr) (rest : List Instr)
    (h : exec P s t i rest = some s') (h0 : (s.th t).waiting = false) (h1 : (s'.th t).waiting = true) :
    (∃ b, i = .cwait b) ∧ s'.count = s.count := by
  cases i
  case' act a => cases a
  case' joinAndFree l => cases l
  all_goals exec_split h
  all_goals (
    simp only [cont_th, pushW_th, pushLog_th, freeWrapper_th, upd_same, cont_count, pushW_count] at h1 ⊢
    first
    | (simp; done)
    | (simp [h0] at h1; done)
    | (simp only [upd_apply] at h1; split at h1 <;> simp_all))

structure LWInv (s : State) : Prop where
  tailOk : ∀ b, Instr.cwait b ∉ (s.th 0).code.tail
  head : ∀ b r, (s.th 0).code = .cwait b :: r → 2 ≤ s.count
  lw : (s.th 0).waiting = true → (s.th 0).woken = false → (s.th 0).deadline = none →
    2 ≤ s.count ∨ ∃ o r, s.lockOwner = some o ∧ (s.th o).code = .signal :: r

end AwsVerif.Threads
