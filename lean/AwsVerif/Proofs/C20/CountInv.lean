import AwsVerif.Proofs.C20.Count
import AwsVerif.Proofs.C20.Refs
namespace AwsVerif.Threads

theorem otherRel_code {s : State} {k : Nat} {a b : Th} (h : OtherRel s k a b) : b.code = a.code ∨ b.code = [] := by
  rcases h with rfl | rfl | ⟨_, _, _, rfl⟩ | ⟨_, rfl⟩ <;> simp

/-- membership-style side conditions -/
structure Memb (P : Prog) (s : State) : Prop where
  mj : ∀ t k, Instr.joinM k ∈ (s.th t).code → P.managed k = true
  mf : ∀ t l, Instr.joinAndFree l ∈ (s.th t).code → ∀ k, k ∈ l → P.managed k = true
  mp : ∀ k, k ∈ s.pending → P.managed k = true
  hu : ∀ t k, Instr.joinU k ∈ (s.th t).code → P.managed k = false
  hh : ∀ k, s.hstate k = .joinable → P.managed k = false
  pj : ∀ t, Instr.pjaSwapPush ∈ (s.th t).code → P.managed t = true

set_option maxHeartbeats 1000000 in
theorem exec_memb (P : Prog) (s s' : State) (t : Nat) (i : Instr) (rest : List Instr)
    (hc : (s.th t).code = i :: rest) (h : exec P s t i rest = some s') (hi : Memb P s) : Memb P s' := by
  have oth := exec_other P s s' t i rest h
  obtain ⟨mj, mf, mp, hu, hh, pj⟩ := hi
  have mjt := mj t; have mft := mf t; have hut := hu t; have pjt := pj t
  rw [hc] at mjt mft hut pjt
  have hcode : ∀ j, j ≠ t → ∀ x, x ∈ (s'.th j).code → x ∈ (s.th j).code := by
    intro j hj x hx
    rcases otherRel_code (oth j hj) with h1 | h1 <;> rw [h1] at hx
    · exact hx
    · cases hx
  -- the part about other threads' code
  have omj : ∀ j, j ≠ t → ∀ k, Instr.joinM k ∈ (s'.th j).code → P.managed k = true :=
    fun j hj k hm => mj j k (hcode j hj _ hm)
  have omf : ∀ j, j ≠ t → ∀ l, Instr.joinAndFree l ∈ (s'.th j).code → ∀ k, k ∈ l → P.managed k = true :=
    fun j hj l hm => mf j l (hcode j hj _ hm)
  have ohu : ∀ j, j ≠ t → ∀ k, Instr.joinU k ∈ (s'.th j).code → P.managed k = false :=
    fun j hj k hm => hu j k (hcode j hj _ hm)
  have opj : ∀ j, j ≠ t → Instr.pjaSwapPush ∈ (s'.th j).code → P.managed j = true :=
    fun j hj hm => pj j (hcode j hj _ hm)
  -- own code, pending, hstate: by cases
  suffices hown : (∀ k, Instr.joinM k ∈ (s'.th t).code → P.managed k = true) ∧
      (∀ l, Instr.joinAndFree l ∈ (s'.th t).code → ∀ k, k ∈ l → P.managed k = true) ∧
      (∀ k, k ∈ s'.pending → P.managed k = true) ∧
      (∀ k, Instr.joinU k ∈ (s'.th t).code → P.managed k = false) ∧
      (∀ k, s'.hstate k = .joinable → P.managed k = false) ∧
      (Instr.pjaSwapPush ∈ (s'.th t).code → P.managed t = true) by
    obtain ⟨h1, h2, h3, h4, h5, h6⟩ := hown
    refine ⟨fun j k hm => ?_, fun j l hm => ?_, h3, fun j k hm => ?_, h5, fun j hm => ?_⟩
    · by_cases hj : j = t
      · subst hj; exact h1 k hm
      · exact omj j hj k hm
    · by_cases hj : j = t
      · subst hj; exact h2 l hm
      · exact omf j hj l hm
    · by_cases hj : j = t
      · subst hj; exact h4 k hm
      · exact ohu j hj k hm
    · by_cases hj : j = t
      · subst hj; exact h6 hm
      · exact opj j hj hm
  clear omj omf ohu opj hcode oth
  cases i
  case' act a => cases a
  case' joinAndFree l => cases l
  all_goals exec_split h
  all_goals (
    simp only [cont_th, pushW_th, pushLog_th, freeWrapper_th, upd_same, expand, cont_pending, pushW_pending,
      pushLog_pending, freeWrapper_pending, cont_hstate, pushW_hstate, pushLog_hstate, freeWrapper_hstate]
    simp_all [List.mem_cons, List.mem_append, upd_apply])
  all_goals (first
    | assumption
    | exact mft.2
    | (refine ⟨by assumption, fun k hk => ?_⟩; split at hk <;> first | exact hh k hk | simp_all)
    | (refine ⟨by assumption, fun k hk => ?_⟩
       by_cases hh' : s.hstate k = HState.joinable
       · exact hh k hh'
       · have hkk := Classical.byContradiction (fun hne => hh' (hk hne))
         subst hkk; assumption)
    | (split <;> simp_all <;> assumption))

theorem upd_idem {α : Type} (f : Nat → α) (t : Nat) (x y : α) : upd (upd f t y) t x = upd f t x := by
  funext j; simp only [upd_apply]; split <;> rfl

@[simp] theorem isLive_handOver (st : Status) :
    isLive (if st = .atexitDone then .handedOver else st) = isLive st := by
  cases st <;> simp [isLive, Status.rank]

@[simp] theorem isLive_notCreated : isLive .notCreated = false := rfl
@[simp] theorem isLive_created : isLive .created = true := rfl
@[simp] theorem isLive_exited : isLive .exited = true := rfl
@[simp] theorem isLive_joined : isLive .joined = false := rfl
@[simp] theorem isLive_running : isLive .running = true := rfl
@[simp] theorem isLive_funcDone : isLive .funcDone = true := rfl
@[simp] theorem isLive_atexitDone : isLive .atexitDone = true := rfl
@[simp] theorem isLive_handedOver : isLive .handedOver = true := rfl

theorem pickWaiter_lt (s : State) (n j : Nat) (h : pickWaiter s n = some j) : j < n := by
  induction n generalizing j with
  | zero => simp [pickWaiter] at h
  | succ n ih =>
    simp only [pickWaiter] at h
    split at h
    · split at h
      · simp at h; omega
      · simp at h
    · rename_i j' hj'
      have := ih j' hj'
      split at h <;> simp at h <;> omega

/-- a pending decrement means the count is at least one (no uint32 wrap-around) -/
theorem count_pos (P : Prog) (s : State) (t : Nat) (rest : List Instr) (ht : t < P.n)
    (hc : (s.th t).code = Instr.decCount :: rest) (hsuf : ∀ k, sufOk P (s.th k).code) (hE : CountEq P s) :
    1 ≤ s.count := by
  have h1 : sumTo P.n (fun k => wMinus P (s.th k)) + 1 ≤ sumTo P.n (fun k => wPlus P k (s.th k)) := by
    refine sumTo_lt P.n t _ _ ht (fun j _ => ?_) ?_
    · have := sufOk_le P _ (hsuf j); simp only [wMinus, wPlus]; omega
    · have h2 := hsuf t
      rw [hc] at h2
      have := sufOk_le P _ h2.2
      simp only [wMinus, wPlus, hc, cMinus, cPlus, iMinus, iPlus]; omega
  unfold CountEq at hE
  omega

theorem exec_countEq (P : Prog) (s s' : State) (t : Nat) (i : Instr) (rest : List Instr)
    (hc : (s.th t).code = i :: rest) (ht : t < P.n)
    (hbig : ∀ k, P.n ≤ k → (s.th k).status = .notCreated)
    (hnc : ∀ k, (s.th k).status = .notCreated → (s.th k).code = [])
    (hm : Memb P s) (hsufAll : ∀ k, sufOk P (s.th k).code)
    (hcopy : ∀ k, Instr.joinM k ∈ (s.th t).code → (s.th k).copyId = some k)
    (h : exec P s t i rest = some s') (hE : CountEq P s) : CountEq P s' := by
  have hsuf := hsufAll t
  have mjt := hm.mj t; have hut := hm.hu t
  rw [hc] at mjt hut hsuf
  have hle := sufOk_le P _ hsuf
  have hlt : ∀ k, (s.th k).status ≠ .notCreated → k < P.n := by
    intro k hk
    by_cases hkn : k < P.n
    · exact hkn
    · exact absurd (hbig k (by omega)) hk
  cases i
  case' act a => cases a
  case' joinAndFree l => cases l
  case decCount =>
    have hpos := count_pos P s t rest ht hc hsufAll hE
    exec_split h
    refine countEq_upd1 P s _ t _ hE ht rfl ?_
    simp only [wPlus, wMinus, hc, cPlus, cMinus, iPlus, iMinus, cont_count]
    omega
  case signal =>
    exec_split h
    · rename_i j hj
      have hjn := pickWaiter_lt s P.n j hj
      by_cases hjt : j = t
      · subst hjt
        refine countEq_upd1 P s _ j { s.th j with woken := true, code := rest } hE ht (by simp [upd_idem]) ?_
        simp [wPlus, wMinus, hc, cPlus, cMinus, iPlus, iMinus]
      · refine countEq_upd2 P s _ t j _ _ hE ht hjn hjt rfl ?_
        simp [wPlus, wMinus, hc, cPlus, cMinus, iPlus, iMinus, Ne.symm hjt]
    · refine countEq_upd1 P s _ t _ hE ht rfl ?_
      simp [wPlus, wMinus, hc, cPlus, cMinus, iPlus, iMinus]
  case create k pin nf nm =>
    simp only [exec] at h
    split at h
    · simp only [Option.some.injEq] at h; subst h
      refine countEq_upd1 P s _ t _ hE ht rfl ?_
      simp only [wPlus, wMinus, hc, cPlus, cMinus, iPlus, iMinus, cPlus_append, cMinus_append, cont_count, pushW_count]
      by_cases hmk : P.managed k = true <;> by_cases hp : pin = true <;>
        simp [hmk, hp, cPlus, cMinus, iPlus, iMinus] <;> omega
    · split at h
      · simp only [Option.some.injEq] at h; subst h
        refine countEq_upd1 P s _ t _ hE ht rfl ?_
        simp only [wPlus, wMinus, hc, cPlus, cMinus, iPlus, iMinus, cPlus_append, cMinus_append, cont_count]
        by_cases hmk : P.managed k = true <;> by_cases hp : pin = true <;>
          simp [hmk, hp, cPlus, cMinus, iPlus, iMinus] <;> omega
      · rename_i hg
        simp only [not_or, Decidable.not_not, Nat.not_le] at hg
        obtain ⟨hs0, _, hkn, htk⟩ := hg
        simp only [Option.some.injEq] at h; subst h
        refine countEq_upd2 P s _ t k _ _ hE ht hkn (Ne.symm htk) rfl ?_
        have hk0 := hnc k hs0
        simp only [wPlus, wMinus, hc, hk0, hs0, cPlus, cMinus, iPlus, iMinus, cont_count, pushW_count,
          isLive_notCreated, isLive_created]
        by_cases hmk : P.managed k = true <;> simp [hmk] <;> omega
  case joinM k =>
    simp only [exec, hcopy k (by rw [hc]; simp), if_true] at h
    split at h
    · rename_i hg
      obtain ⟨hs0, htk⟩ := hg
      have hkn := hlt k (by rw [hs0]; simp)
      have hmk := mjt k (by simp)
      simp only [Option.some.injEq] at h; subst h
      refine countEq_upd2 P s _ t k _ _ hE ht hkn (Ne.symm htk) rfl ?_
      simp [wPlus, wMinus, hc, hs0, hmk, cPlus, cMinus, iPlus, iMinus, htk]
      omega
    · simp at h
  case joinU k =>
    simp only [exec] at h
    split at h
    · simp only [Option.some.injEq] at h; subst h
      refine countEq_upd1 P s _ t _ hE ht rfl ?_
      simp [wPlus, wMinus, hc, cPlus, cMinus, iPlus, iMinus]
    · split at h
      · simp only [Option.some.injEq] at h; subst h
        refine countEq_upd1 P s _ t _ hE ht rfl ?_
        simp [wPlus, wMinus, hc, cPlus, cMinus, iPlus, iMinus]
      · split at h
        · rename_i htk _ hs0
          have hkn := hlt k (by rw [hs0]; simp)
          have hmk := hut k (by simp)
          simp only [Option.some.injEq] at h; subst h
          refine countEq_upd2 P s _ t k _ _ hE ht hkn (Ne.symm htk) rfl ?_
          simp [wPlus, wMinus, hc, hs0, hmk, cPlus, cMinus, iPlus, iMinus, htk]
        · simp at h
  all_goals exec_split h
  all_goals (first
    | (refine countEq_upd1 P s _ t _ hE ht rfl ?_
       simp only [wPlus, wMinus, hc, cPlus, cMinus, iPlus, iMinus, expand, cPlus_append, cMinus_append, cont_count,
         pushW_count, pushLog_count, freeWrapper_count, isLive_handOver, List.length_cons]
       all_goals ((repeat' split) <;> (try simp_all [cPlus, cMinus, iPlus, iMinus, isLive, Status.rank]) <;> omega))
    | skip)

theorem exec_sufOk (P : Prog) (s s' : State) (t : Nat) (i : Instr) (rest : List Instr)
    (hsuf : sufOk P (i :: rest)) (h : exec P s t i rest = some s') : sufOk P (s'.th t).code := by
  have h1 := hsuf.1
  have h2 := hsuf.2
  have h3 := sufOk_le P rest h2
  cases i
  case' act a => cases a
  case' joinAndFree l => cases l
  all_goals exec_split h
  all_goals (
    simp only [cont_th, pushW_th, pushLog_th, freeWrapper_th, upd_same, expand]
    first
    | exact h2
    | ((repeat' split) <;>
       simp [sufOk, cPlus, cMinus, iPlus, iMinus, *] at * <;> (try omega) <;> (try (refine ⟨?_, ?_⟩ <;> omega))))

theorem exec_created_lt (P : Prog) (s s' : State) (t : Nat) (i : Instr) (rest : List Instr)
    (ht : (s.th t).status ≠ .notCreated) (h : exec P s t i rest = some s') :
    ∀ k, (s.th k).status = .notCreated → (s'.th k).status ≠ .notCreated → k < P.n := by
  cases i
  case' act a => cases a
  case' joinAndFree l => cases l
  all_goals exec_split h
  all_goals (
    intro k hk
    have hkt : k ≠ t := fun e => ht (e ▸ hk)
    simp only [cont_th, pushW_th, pushLog_th, freeWrapper_th, upd_apply, hkt, if_false]
    first
    | (intro hh; exact absurd hk hh)
    | (split
       · rename_i hh; subst hh; simp_all
       · intro hh; exact absurd hk hh))

theorem cPlus_map_act (P : Prog) (l : List Action) : cPlus P (l.map Instr.act) = cMinus P (l.map Instr.act) := by
  induction l with
  | nil => rfl
  | cons a r ih => cases a <;> simp [cPlus, cMinus, iPlus, iMinus, ih]

theorem sufOk_map_act (P : Prog) (l : List Action) : sufOk P (l.map Instr.act) := by
  induction l with
  | nil => trivial
  | cons a r ih =>
    refine ⟨?_, ih⟩
    have := cPlus_map_act P (a :: r)
    simp only [List.map_cons] at this
    omega

structure CountInv (P : Prog) (s : State) : Prop where
  big : ∀ k, P.n ≤ k → (s.th k).status = .notCreated
  nocode : ∀ k, ((s.th k).status = .notCreated ∨ (s.th k).status = .created ∨ (s.th k).status = .funcDone) →
    (s.th k).code = []
  eq : CountEq P s
  suf : ∀ k, sufOk P (s.th k).code
  memb : Memb P s

theorem sumTo_zero (n : Nat) : sumTo n (fun _ => 0) = 0 := by
  induction n with
  | zero => rfl
  | succ n ih => simp [sumTo, ih]

theorem countInv_init (P : Prog) (hn : 0 < P.n) (hm0 : P.managed 0 = false) : CountInv P (init P) := by
  have hcode : ∀ k, ((init P).th k).code = [] := by intro k; simp only [init]; split <;> rfl
  refine ⟨fun k hk => ?_, fun k _ => hcode k, ?_, fun k => ?_, ⟨?_, ?_, ?_, ?_, ?_, ?_⟩⟩
  · have : k ≠ 0 := by omega
    simp [init, this]
  · unfold CountEq
    have h1 : sumTo P.n (fun k => wMinus P ((init P).th k)) = 0 := by
      rw [← sumTo_zero P.n]; apply sumTo_congr; intro j _; simp [wMinus, hcode, cMinus]
    have h2 : sumTo P.n (fun k => wPlus P k ((init P).th k)) = 0 := by
      rw [← sumTo_zero P.n]; apply sumTo_congr; intro j _
      simp only [wPlus, hcode, cPlus]
      by_cases hj : j = 0
      · subst hj; simp [hm0]
      · simp [init, hj]
    rw [h1, h2]; rfl
  · rw [hcode]; trivial
  · intro t k hm; rw [hcode] at hm; cases hm
  · intro t l hm; rw [hcode] at hm; cases hm
  · intro k hm; simp [init] at hm
  · intro t k hm; rw [hcode] at hm; cases hm
  · intro k hm; simp [init] at hm
  · intro t hm; rw [hcode] at hm; cases hm

end AwsVerif.Threads
