import AwsVerif.Proofs.C12.Tag
set_option linter.unusedSimpArgs false
/-! Where `<name` / `</name>` can occur in a rendered token stream. -/
namespace AwsVerif.Xml

/-- no occurrence of `pat` starts inside `x`, whatever follows -/
def Skippable (pat x : Bytes) : Prop := ∀ s, firstMatch pat (x ++ s) = (firstMatch pat s).map (· + x.length)

theorem skippable_nil (pat : Bytes) : Skippable pat [] := by
  intro s; cases h : firstMatch pat s <;> simp [h]

theorem skippable_append {pat x y : Bytes} (hx : Skippable pat x) (hy : Skippable pat y) : Skippable pat (x ++ y) := by
  intro s
  rw [List.append_assoc, hx, hy]
  cases firstMatch pat s with
  | none => simp
  | some k => simp only [Option.map_some, List.length_append, Option.some.injEq]; omega

theorem skippable_of_not_mem {p : UInt8} {ps x : Bytes} (h : p ∉ x) : Skippable (p :: ps) x :=
  fun _ => firstMatch_skip h

/-- a block that starts with the pattern's first byte but does not start a match, and has no other such byte -/
theorem skippable_tag {p : UInt8} {ps y : Bytes} (h : p ∉ y) (hp : ∀ s, (p :: ps).isPrefixOf (p :: (y ++ s)) = false) :
    Skippable (p :: ps) (p :: y) := by
  intro s
  rw [List.cons_append, firstMatch_cons, hp s, firstMatch_skip h]
  simp only [Bool.false_eq_true, if_false, Option.map_map, List.length_cons]
  congr 1

theorem firstMatch_here {pat s : Bytes} (hne : pat ≠ []) (h : pat <+: s) : firstMatch pat s = some 0 := by
  cases s with
  | nil =>
    have := List.prefix_nil.mp h
    exact absurd this hne
  | cons b bs =>
    rw [firstMatch_cons, List.isPrefixOf_iff_prefix.mpr h]; rfl

-- ---------------------------------------------------------------- prefixes of names
theorem prefix_cancel_sep {a b x y : Bytes} {c : UInt8} (ha : c ∉ a) (hb : c ∉ b)
    (h : a ++ c :: x <+: b ++ c :: y) : a = b := by
  induction a generalizing b with
  | nil =>
    cases b with
    | nil => rfl
    | cons d ds =>
      simp only [List.nil_append, List.cons_append, List.cons_prefix_cons] at h
      simp only [List.mem_cons, not_or] at hb
      exact absurd h.1 hb.1
  | cons e es ih =>
    cases b with
    | nil =>
      simp only [List.cons_append, List.nil_append, List.cons_prefix_cons] at h
      simp only [List.mem_cons, not_or] at ha
      exact absurd h.1.symm ha.1
    | cons d ds =>
      simp only [List.cons_append, List.cons_prefix_cons] at h
      simp only [List.mem_cons, not_or] at ha hb
      rw [h.1, ih ha.2 hb.2 h.2]

/-- a name is a prefix of `n ++ d :: …` (with `d` not a name byte) only if it is a prefix of `n` -/
theorem name_prefix_iff {nm n rest : Bytes} {d : UInt8} (hnm : ∀ b ∈ nm, nameByte b = true) (hd : nameByte d = false) :
    nm <+: n ++ d :: rest ↔ nm <+: n := by
  constructor
  · intro h
    by_cases hl : nm.length ≤ n.length
    · exact List.prefix_of_prefix_length_le h (List.prefix_append n _) hl
    · have h2 : n <+: nm := List.prefix_of_prefix_length_le (List.prefix_append n _) h (by omega)
      obtain ⟨t, ht⟩ := h2
      subst ht
      rw [List.prefix_append_right_inj] at h
      cases t with
      | nil => simp at hl
      | cons e es =>
        simp only [List.cons_prefix_cons] at h
        have := hnm e (by simp)
        rw [h.1, hd] at this; cases this
  · intro h; exact h.trans (List.prefix_append n _)

/-- first byte after the declaration's name -/
theorem attrs_head (as : List (Bytes × Bytes)) (more : Bytes) :
    ∃ d r, attrsBytes as ++ GT :: more = d :: r ∧ nameByte d = false ∧ isNameEnd d = true := by
  cases as with
  | nil => exact ⟨GT, more, rfl, by decide, by decide⟩
  | cons a as => exact ⟨SPACE, _, rfl, by decide, by decide⟩

/-- none of the generated name-end delimiters is a byte the dialect allows in names (so `<nm` followed by a
name byte is a longer name, and followed by a delimiter it is the element `nm`) -/
theorem nameEnd_not_nameByte : ∀ x ∈ Gen.XmlConsts.nameEndBytes, nameByte x = false := by decide

theorem nameByte_not_nameEnd {b : UInt8} (h : nameByte b = true) : isNameEnd b = false := by
  cases hb : isNameEnd b with
  | false => rfl
  | true =>
    have := nameEnd_not_nameByte b ((isNameEnd_iff b).mp hb)
    rw [h] at this; cases this

-- ---------------------------------------------------------------- tokens
def Tok.WF : Tok → Prop
  | .text b => ∀ x ∈ b, textByte x = true
  | .opn n as => NameOk n ∧ ∀ a ∈ as, AttrOk a
  | .cls n => NameOk n

def ToksWF (ts : List Tok) : Prop := ∀ t ∈ ts, t.WF

theorem text_LT_not_mem {b : Bytes} (h : ∀ x ∈ b, textByte x = true) : LT ∉ b := not_mem_of_all h (by decide)

/-- `<nm` does not occur in text, in closing tags, or in start tags of names that do not begin with `nm` -/
theorem skippable_open_tok {nm : Bytes} (hnm : NameOk nm) {t : Tok} (ht : t.WF)
    (hno : ∀ n as, t = .opn n as → ¬ nm <+: n) : Skippable (openPatOf nm) t.render := by
  cases t with
  | text b => exact skippable_of_not_mem (text_LT_not_mem ht)
  | cls n =>
    apply skippable_tag
    · have := (name_not_mem ht).1
      simp only [List.mem_cons, List.mem_append, List.not_mem_nil, or_false, not_or]
      exact ⟨by decide, this, by decide⟩
    · intro s
      cases hc : nm with
      | nil => exact absurd hc hnm.1
      | cons c cs =>
        have hcs : c ≠ SLASH := (nameByte_ne (hnm.2 c (by rw [hc]; simp))).2.2.1
        simp [List.isPrefixOf, hcs]
  | opn n as =>
    have hno' := hno n as rfl
    apply skippable_tag
    · simp only [List.mem_append, List.mem_cons, List.not_mem_nil, or_false, not_or]
      exact ⟨LT_not_mem_decl ht.1 ht.2, by decide⟩
    · intro s
      obtain ⟨d, r, hdr, hd, _⟩ := attrs_head as s
      cases hb : (LT :: nm).isPrefixOf (LT :: (declBytes n as ++ [GT] ++ s)) with
      | false => rfl
      | true =>
        exfalso
        have h1 := List.isPrefixOf_iff_prefix.mp hb
        simp only [List.cons_prefix_cons, true_and] at h1
        have e : declBytes n as ++ [GT] ++ s = n ++ d :: r := by
          rw [declBytes, List.append_assoc, List.append_assoc, ← hdr]; simp
        rw [e, name_prefix_iff hnm.2 hd] at h1
        exact hno' h1

/-- `</nm>` does not occur in text, in start tags, or in closing tags of other names -/
theorem skippable_close_tok {nm : Bytes} (hnm : NameOk nm) {t : Tok} (ht : t.WF) (hno : t ≠ .cls nm) :
    Skippable (closePatOf nm) t.render := by
  cases t with
  | text b => exact skippable_of_not_mem (text_LT_not_mem ht)
  | opn n as =>
    apply skippable_tag
    · simp only [List.mem_append, List.mem_cons, List.not_mem_nil, or_false, not_or]
      exact ⟨LT_not_mem_decl ht.1 ht.2, by decide⟩
    · intro s
      cases hc : n with
      | nil => exact absurd hc ht.1.1
      | cons c cs =>
        have hcs : c ≠ SLASH := (nameByte_ne (ht.1.2 c (by rw [hc]; simp))).2.2.1
        simp [List.isPrefixOf, declBytes, Ne.symm hcs]
  | cls n =>
    have hne : n ≠ nm := fun e => hno (by rw [e])
    apply skippable_tag
    · have := (name_not_mem ht).1
      simp only [List.mem_cons, List.mem_append, List.not_mem_nil, or_false, not_or]
      exact ⟨by decide, this, by decide⟩
    · intro s
      cases hb : (LT :: SLASH :: (nm ++ [GT])).isPrefixOf (LT :: (SLASH :: (n ++ [GT]) ++ s)) with
      | false => rfl
      | true =>
        exfalso
        have h1 := List.isPrefixOf_iff_prefix.mp hb
        simp only [List.cons_append, List.cons_prefix_cons, true_and] at h1
        have h2 : nm ++ GT :: [] <+: n ++ GT :: s := by simpa using h1
        exact hne (prefix_cancel_sep (name_not_mem hnm).2.1 (name_not_mem ht).2.1 h2).symm

def NoClose (nm : Bytes) (ts : List Tok) : Prop := ∀ t ∈ ts, t ≠ .cls nm

theorem skippable_close_toks {nm : Bytes} (hnm : NameOk nm) : ∀ {ts : List Tok}, ToksWF ts → NoClose nm ts →
    Skippable (closePatOf nm) (renderToks ts) := by
  intro ts
  induction ts with
  | nil => intro _ _; exact skippable_nil _
  | cons t ts ih =>
    intro hw hn
    exact skippable_append (skippable_close_tok hnm (hw t List.mem_cons_self) (hn t List.mem_cons_self))
      (ih (fun x hx => hw x (List.mem_cons_of_mem _ hx)) (fun x hx => hn x (List.mem_cons_of_mem _ hx)))

theorem renderToks_append (a b : List Tok) : renderToks (a ++ b) = renderToks a ++ renderToks b := by
  induction a with
  | nil => rfl
  | cons t ts ih => simp [renderToks, ih]

/-- the first `</nm>` in a stream is the first closing token of that name -/
theorem firstMatch_close {nm : Bytes} (hnm : NameOk nm) {pre : List Tok} (hw : ToksWF pre) (hn : NoClose nm pre) (tail : Bytes) :
    firstMatch (closePatOf nm) (renderToks pre ++ (closePatOf nm ++ tail)) = some (renderToks pre).length := by
  rw [skippable_close_toks hnm hw hn, firstMatch_here (by simp [closePatOf]) (List.prefix_append _ _)]
  simp

end AwsVerif.Xml
