import AwsVerif.Proofs.C12.Find
import AwsVerif.Proofs.C12.Decl
set_option linter.unusedSimpArgs false
/-! `s_advance_to_closing_tag`: no fault, the cursor stays a suffix window and only moves forward. -/
namespace AwsVerif.Xml
open AwsVerif.Gen

theorem closeInner_ok (doc : Bytes) (hH : doc.length ≤ HALF) (openPat : Bytes) (cp closeLen : Nat)
    (hcl : openPat.length ≤ closeLen) (hcl1 : 1 ≤ closeLen) (hcp : cp + closeLen ≤ doc.length) :
    ∀ fuel (cur : Cur) (dc : Nat) (le : Err), cur.off + cur.len = doc.length → cur.off ≤ cp → cur.len < fuel →
      Ok (closeInner doc openPat cp closeLen fuel cur dc le)
        (fun r => r.1 = ⟨cp + closeLen, doc.length - (cp + closeLen)⟩ ∧ r.2.1 ≤ dc + cur.len) := by
  intro fuel
  induction fuel with
  | zero => intro _ _ _ _ _ h; omega
  | succ f ih =>
    intro cur dc le hs hle hf
    unfold closeInner
    have h0 : ¬ cur.len = 0 := by omega
    simp only [h0, if_false]
    rw [findExact_spec doc hH cur openPat hs]
    simp only [bind, Except.bind]
    have hfin : advance cur (cp - cur.off + closeLen) = ⟨cp + closeLen, doc.length - (cp + closeLen)⟩ := by
      rw [advance_eq (by omega) (by omega)]
      congr 1 <;> omega
    cases hf : findSpec doc cur openPat with
    | mk r e =>
      cases r with
      | none => exact ⟨_, rfl, hfin, by simp only; omega⟩
      | some op =>
        obtain ⟨h1, h2, _, _⟩ := findSpec_some hs hf
        simp only
        by_cases hlt : op < cp
        · simp only [hlt, if_true]
          rw [rd_ok (by omega)]
          simp only
          have hadv : advance cur (op - cur.off + 1) = ⟨op + 1, cur.len - (op - cur.off + 1)⟩ := by
            rw [advance_eq (by omega) (by omega)]
            congr 1; omega
          rw [hadv]
          obtain ⟨r, hr, hr1, hr2⟩ := ih ⟨op + 1, cur.len - (op - cur.off + 1)⟩
            (if isNameEnd (doc[op + openPat.length]'(by omega)) = true then dc + 1 else dc) le
            (by simp only; omega) (by simp only; omega) (by simp only; omega)
          refine ⟨r, hr, hr1, ?_⟩
          simp only at hr2
          split at hr2 <;> omega
        · simp only [hlt, if_false]
          exact ⟨_, rfl, hfin, by simp only; omega⟩

def closePatOf (nm : Bytes) : Bytes := LT :: SLASH :: (nm ++ [GT])
def openPatOf (nm : Bytes) : Bytes := LT :: nm

theorem closeOuter_ok (doc : Bytes) (hH : doc.length ≤ HALF) (nm : Bytes) :
    ∀ fuel (cur : Cur) (dc : Nat) (le : Err), cur.off + cur.len = doc.length → cur.len < fuel →
      Ok (closeOuter doc (openPatOf nm) (closePatOf nm) fuel cur dc le)
        (fun r => r.1.off + r.1.len = doc.length ∧ cur.off ≤ r.1.off ∧
          ∀ p, r.2.1 = some p → cur.off ≤ p ∧ p + (closePatOf nm).length ≤ r.1.off ∧ closePatOf nm <+: doc.drop p) := by
  intro fuel
  induction fuel with
  | zero => intro _ _ _ _ h; omega
  | succ f ih =>
    intro cur dc le hs hf
    unfold closeOuter
    rw [findExact_spec doc hH cur _ hs]
    simp only [bind, Except.bind]
    cases hfs : findSpec doc cur (closePatOf nm) with
    | mk r e =>
      cases r with
      | none => exact ⟨_, rfl, hs, Nat.le_refl _, by simp⟩
      | some cp =>
        obtain ⟨h1, h2, h3, _⟩ := findSpec_some hs hfs
        simp only
        have hlen : (openPatOf nm).length ≤ (closePatOf nm).length := by simp [openPatOf, closePatOf]
        have hlen1 : 1 ≤ (closePatOf nm).length := by simp [closePatOf]
        obtain ⟨⟨cur', dc', le'⟩, hci, hP⟩ := closeInner_ok doc hH (openPatOf nm) cp (closePatOf nm).length hlen hlen1 h2
          (cur.len + 1) cur dc le hs h1 (by omega)
        rw [hci]
        obtain ⟨hP, _⟩ := hP
        simp only at hP ⊢
        subst hP
        by_cases hdc : dc' > 0
        · simp only [hdc, if_true]
          obtain ⟨r2, hr2, hs2, hmono, hp2⟩ := ih ⟨cp + (closePatOf nm).length, doc.length - (cp + (closePatOf nm).length)⟩ dc' le'
            (by simp only; omega) (by simp only; omega)
          refine ⟨r2, hr2, hs2, by simp only at hmono; omega, ?_⟩
          intro p hp
          obtain ⟨a, b, c⟩ := hp2 p hp
          simp only at a
          exact ⟨by omega, b, c⟩
        · simp only [hdc, if_false]
          refine ⟨_, rfl, by simp only; omega, by simp only; omega, ?_⟩
          intro p hp
          simp only [Option.some.injEq] at hp
          subst hp
          exact ⟨h1, by simp only; omega, h3⟩

/-- postcondition of `s_advance_to_closing_tag` used by the safety / limit theorems -/
structure AdvPost (doc : Bytes) (st : PState) (node : Node) (r : PState × Bool × View × Option Nat) : Prop where
  suffix : r.1.cur.off + r.1.cur.len = doc.length
  mono : st.cur.off ≤ r.1.cur.off
  depth : r.1.depth = st.depth
  maxDepth : r.1.maxDepth = st.maxDepth
  events : r.1.events = st.events
  body : ViewIn doc r.2.2.1
  succ : r.2.1 = true → node.isEmpty = false →
    node.name.len ≤ MAX_NAME_LEN ∧ ∃ p, r.2.2.2 = some p ∧ st.cur.off ≤ p ∧
      closePatOf (seg doc node.name.off (node.name.off + node.name.len)) <+: doc.drop p ∧
      r.2.2.1 = some ⟨node.docAtBody.off, p - node.docAtBody.off⟩

theorem advanceToClosingTag_ok (doc : Bytes) (hH : doc.length ≤ HALF) (st : PState) (node : Node)
    (hs : st.cur.off + st.cur.len = doc.length) (hn : node.name.off + node.name.len ≤ doc.length)
    (hd : node.docAtBody.off + node.docAtBody.len ≤ doc.length) :
    Ok (advanceToClosingTag doc st node) (AdvPost doc st node) := by
  unfold advanceToClosingTag
  by_cases he : node.isEmpty = true
  · simp only [he, if_true]
    exact ⟨_, rfl, ⟨hs, Nat.le_refl _, rfl, rfl, rfl, trivial, by intro _ h; simp [he] at h⟩⟩
  · simp only [he, Bool.false_eq_true, if_false, pure, Except.pure, bind, Except.bind]
    cases h1 : XmlConsts.closingTagCannotFit (node.name.len + XmlConsts.closingOverhead) node.docAtBody.len with
    | true =>
      simp only [if_true]
      exact ⟨_, rfl, ⟨hs, Nat.le_refl _, rfl, rfl, rfl, trivial, by intro h; simp at h⟩⟩
    | false =>
      simp only [Bool.false_eq_true, if_false]
      cases h2 : XmlConsts.nameTooLong (node.name.len + XmlConsts.closingOverhead) with
      | true =>
        simp only [if_true]
        exact ⟨_, rfl, ⟨hs, Nat.le_refl _, rfl, rfl, rfl, trivial, by intro h; simp at h⟩⟩
      | false =>
        simp only [Bool.false_eq_true, if_false]
        rw [slice_ok hn]
        simp only
        have hseg : (doc.drop node.name.off).take node.name.len = seg doc node.name.off (node.name.off + node.name.len) := by
          simp [seg]
        rw [hseg]
        -- the name passed the length test, so both compare buffers hold their complete pattern
        have hsl : (seg doc node.name.off (node.name.off + node.name.len)).length = node.name.len := by
          rw [seg_length hn]; omega
        obtain ⟨hpo, hpc⟩ := patterns_fit (nm := seg doc node.name.off (node.name.off + node.name.len)) (by rw [hsl]; exact h2)
        rw [hpo, hpc]
        obtain ⟨⟨cur', r, le⟩, hco, hs', hmono, hp⟩ := closeOuter_ok doc hH (seg doc node.name.off (node.name.off + node.name.len))
          (st.cur.len + 1) st.cur 1 st.lastErr hs (by omega)
        simp only [openPatOf, closePatOf] at hco
        rw [hco]
        simp only at hs' hmono hp ⊢
        cases r with
        | none => exact ⟨_, rfl, ⟨hs', hmono, rfl, rfl, rfl, trivial, by intro h; simp at h⟩⟩
        | some cp =>
          obtain ⟨a, b, c⟩ := hp cp rfl
          refine ⟨_, rfl, ⟨hs', hmono, rfl, rfl, rfl, ?_, ?_⟩⟩
          · simp only [ViewIn]
            have := c.length_le
            simp only [List.length_drop] at this
            omega
          · intro _ _
            exact ⟨(nameTooLong_iff _).mp h2, cp, rfl, a, c, rfl⟩

end AwsVerif.Xml
