import AwsVerif.Proofs.C12.Match
set_option linter.unusedSimpArgs false
/-! Rendered forests are balanced for every name: the depth counter returns to where it started. -/
namespace AwsVerif.Xml

theorem matchLen_text (nm : Bytes) (b : Bytes) (ts : List Tok) (dc : Nat) :
    matchLen nm (Tok.text b :: ts) dc = (matchLen nm ts dc).map (· + b.length) := by
  simp [matchLen, Tok.render]

mutual
theorem matchLen_tree (nm : Bytes) : ∀ (t : Tree) (more : List Tok) (dc : Nat), 1 ≤ dc →
    matchLen nm (t.toks ++ more) dc = (matchLen nm more dc).map (· + (renderToks t.toks).length)
  | .text b, more, dc, _ => by
    simp only [Tree.toks, List.cons_append, List.nil_append, matchLen_text, renderToks, Tok.render, List.append_nil]
  | .elem n as ks, more, dc, hdc => by
    simp only [Tree.toks, List.cons_append, List.append_assoc, matchLen]
    rw [matchLen_forest nm ks _ _ (by split <;> omega)]
    simp only [matchLen, List.nil_append]
    by_cases hn : n = nm
    · have h1 : ¬ (dc + 1 = 1) := by omega
      simp only [hn, if_true, h1, if_false, Nat.add_sub_cancel]
      cases matchLen nm more dc with
      | none => rfl
      | some k =>
        simp only [Option.map_some, renderToks, renderToks_append, List.length_append, List.length_nil, Nat.add_zero, Option.some.injEq]
        omega
    · simp only [hn, if_false]
      cases matchLen nm more dc with
      | none => rfl
      | some k =>
        simp only [Option.map_some, renderToks, renderToks_append, List.length_append, List.length_nil, Nat.add_zero, Option.some.injEq]
        omega
theorem matchLen_forest (nm : Bytes) : ∀ (ks : List Tree) (more : List Tok) (dc : Nat), 1 ≤ dc →
    matchLen nm (toksL ks ++ more) dc = (matchLen nm more dc).map (· + (renderToks (toksL ks)).length)
  | [], more, dc, _ => by
    cases h : matchLen nm more dc <;> simp [toksL, renderToks, h]
  | t :: ts, more, dc, hdc => by
    simp only [toksL, List.append_assoc]
    rw [matchLen_tree nm t _ dc hdc, matchLen_forest nm ts more dc hdc]
    cases matchLen nm more dc with
    | none => rfl
    | some k =>
      simp only [Option.map_some, renderToks_append, List.length_append, Option.some.injEq]
      omega
end

/-- the closing tag that matches an element's start tag is the one `render` wrote for it -/
theorem matchLen_kids (nm : Bytes) (ks : List Tree) (more : List Tok) :
    matchLen nm (toksL ks ++ Tok.cls nm :: more) 1 = some (renderKids ks).length := by
  rw [matchLen_forest nm ks _ 1 (Nat.le_refl _)]
  simp [matchLen, renderKids]

-- ---------------------------------------------------------------- well-formedness of token streams
mutual
theorem toksWF_tree : ∀ (t : Tree), t.WF → ToksWF t.toks
  | .text b, h => by
    intro x hx
    simp only [Tree.toks, List.mem_singleton] at hx
    subst hx; exact h
  | .elem n as ks, h => by
    simp only [Tree.WF] at h
    intro x hx
    simp only [Tree.toks, List.mem_cons, List.mem_append, List.mem_singleton, List.not_mem_nil, or_false] at hx
    rcases hx with rfl | hx | rfl
    · exact ⟨h.1, h.2.1⟩
    · exact toksWF_forest ks h.2.2 x hx
    · exact h.1
theorem toksWF_forest : ∀ (ks : List Tree), WFL ks → ToksWF (toksL ks)
  | [], _ => by intro x hx; cases hx
  | t :: ts, h => by
    simp only [WFL] at h
    intro x hx
    simp only [toksL, List.mem_append] at hx
    rcases hx with hx | hx
    · exact toksWF_tree t h.1 x hx
    · exact toksWF_forest ts h.2 x hx
end

/-- `s_advance_to_closing_tag` on the rendering of an element's children followed by its end tag:
the cursor lands behind the end tag and the body is exactly the rendered children -/
theorem advanceToClosingTag_render (doc : Bytes) (hH : doc.length ≤ HALF) (st : PState) (node : Node)
    (nm : Bytes) (hnm : NameOk nm) (ks : List Tree) (hks : WFL ks) (tail : Bytes)
    (hs : st.cur.off + st.cur.len = doc.length) (herr : st.error = false)
    (hname : seg doc node.name.off (node.name.off + node.name.len) = nm) (hnl : node.name.len = nm.length)
    (hnv : node.name.off + node.name.len ≤ doc.length)
    (hdab : node.docAtBody = st.cur) (hemp : node.isEmpty = false)
    (hd : doc.drop st.cur.off = renderKids ks ++ (closePatOf nm ++ tail)) :
    Ok (advanceToClosingTag doc st node) (fun r =>
      if nm.length ≤ MAX_NAME_LEN then
        r.2.1 = true ∧ r.1.cur = ⟨st.cur.off + (renderKids ks).length + (closePatOf nm).length,
            doc.length - (st.cur.off + (renderKids ks).length + (closePatOf nm).length)⟩ ∧
          r.1.depth = st.depth ∧ r.1.maxDepth = st.maxDepth ∧ r.1.error = false ∧ r.1.events = st.events ∧
          r.2.2.1 = some ⟨st.cur.off, (renderKids ks).length⟩
      else r.2.1 = false ∧ r.1.events = st.events) := by
  have hlen := length_of_drop hd (by omega)
  simp only [List.length_append] at hlen
  have hcl : (closePatOf nm).length = nm.length + 3 := by simp [closePatOf]
  unfold advanceToClosingTag
  simp only [hemp, Bool.false_eq_true, if_false, pure, Except.pure, bind, Except.bind, hdab, hnl]
  -- the closing tag is there, so it fits the rest of the document
  have h1 : Gen.XmlConsts.closingTagCannotFit (nm.length + Gen.XmlConsts.closingOverhead) st.cur.len = false := by
    cases hc : Gen.XmlConsts.closingTagCannotFit (nm.length + Gen.XmlConsts.closingOverhead) st.cur.len with
    | false => rfl
    | true =>
      have := (closingTagCannotFit_iff _ _).mp hc
      have ho : Gen.XmlConsts.closingOverhead = 3 := by decide
      omega
  simp only [h1, Bool.false_eq_true, if_false]
  by_cases hmax : nm.length ≤ MAX_NAME_LEN
  · have h2 : Gen.XmlConsts.nameTooLong (nm.length + Gen.XmlConsts.closingOverhead) = false := (nameTooLong_iff _).mpr hmax
    simp only [h2, Bool.false_eq_true, if_false, hmax, if_true]
    rw [← hnl, slice_ok hnv]
    have hseg : (doc.drop node.name.off).take node.name.len = nm := by
      rw [← hname]; simp [seg]
    simp only [hseg]
    obtain ⟨hpo, hpc⟩ := patterns_fit (nm := nm) h2
    rw [hpo, hpc]
    have hd2 : doc.drop st.cur.off = renderToks (toksL ks ++ [Tok.cls nm]) ++ tail := by
      rw [hd, renderToks_append]; simp [renderKids, renderToks, Tok.render, closePatOf]
    have hw : ToksWF (toksL ks ++ [Tok.cls nm]) := by
      intro x hx
      simp only [List.mem_append, List.mem_singleton] at hx
      rcases hx with hx | rfl
      · exact toksWF_forest ks hks x hx
      · exact hnm
    obtain ⟨⟨cur', r, le⟩, hco, hc1, hc2⟩ := closeOuter_toks doc hH nm hnm (st.cur.len + 1) (toksL ks ++ [Tok.cls nm]) st.cur 1
      st.lastErr tail (renderKids ks).length hw (Nat.le_refl _) hs hd2 (matchLen_kids nm ks []) (by omega)
    simp only [openPatOf, closePatOf] at hco
    rw [hco]
    simp only at hc1 hc2 ⊢
    subst hc1 hc2
    simp only [herr, Bool.not_false, Nat.add_sub_cancel_left]
    exact ⟨_, rfl, rfl, by simp [closePatOf], rfl, rfl, rfl, rfl, rfl⟩
  · have h2 : Gen.XmlConsts.nameTooLong (nm.length + Gen.XmlConsts.closingOverhead) = true := by
      cases hc : Gen.XmlConsts.nameTooLong (nm.length + Gen.XmlConsts.closingOverhead) with
      | true => rfl
      | false => exact absurd ((nameTooLong_iff _).mp hc) hmax
    simp only [h2, if_true, hmax, if_false]
    exact ⟨_, rfl, rfl, rfl⟩

end AwsVerif.Xml
