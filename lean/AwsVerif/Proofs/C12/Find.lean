import AwsVerif.Proofs.C12.Basic
set_option linter.unusedSimpArgs false
/-! `aws_byte_cursor_find_exact` computes the first occurrence (`firstMatch`). -/
namespace AwsVerif.Xml

/-- index of the first occurrence of `pat` (as a contiguous block) in `s` -/
def firstMatch (pat : Bytes) : Bytes → Option Nat
  | [] => none
  | b :: bs => if pat.isPrefixOf (b :: bs) then some 0 else
      match firstMatch pat bs with
      | some k => some (k + 1)
      | none => none

theorem firstMatch_cons (pat : Bytes) (b : UInt8) (bs : Bytes) :
    firstMatch pat (b :: bs) = if pat.isPrefixOf (b :: bs) then some 0 else (firstMatch pat bs).map (· + 1) := by
  rw [firstMatch]; cases firstMatch pat bs <;> rfl

theorem firstMatch_none_of_short {pat s : Bytes} (h : s.length < pat.length) : firstMatch pat s = none := by
  induction s with
  | nil => rfl
  | cons b bs ih =>
    have hp : pat.isPrefixOf (b :: bs) = false := by
      cases hb : pat.isPrefixOf (b :: bs) with
      | false => rfl
      | true =>
        have := List.IsPrefix.length_le (List.isPrefixOf_iff_prefix.mp hb)
        omega
    rw [firstMatch_cons]
    simp [hp, ih (by simp at h; omega)]

/-- no occurrence can start inside a block that does not contain the first byte of the pattern -/
theorem firstMatch_skip {p : UInt8} {ps a s : Bytes} (h : p ∉ a) :
    firstMatch (p :: ps) (a ++ s) = (firstMatch (p :: ps) s).map (· + a.length) := by
  induction a with
  | nil => simp
  | cons x xs ih =>
    simp only [List.mem_cons, not_or] at h
    have hp : (p :: ps).isPrefixOf (x :: (xs ++ s)) = false := by
      simp [List.isPrefixOf, h.1]
    rw [List.cons_append, firstMatch_cons, hp, ih h.2]
    simp only [Bool.false_eq_true, if_false, Option.map_map, List.length_cons]
    congr 1

theorem firstMatch_some {pat s : Bytes} {k : Nat} (h : firstMatch pat s = some k) :
    pat <+: s.drop k ∧ k + pat.length ≤ s.length := by
  induction s generalizing k with
  | nil => simp [firstMatch] at h
  | cons b bs ih =>
    rw [firstMatch_cons] at h
    by_cases hp : pat.isPrefixOf (b :: bs) = true
    · simp only [hp, if_true, Option.some.injEq] at h; subst h
      have := List.isPrefixOf_iff_prefix.mp hp
      exact ⟨by simpa using this, by simpa using this.length_le⟩
    · rw [if_neg hp] at h
      cases hj : firstMatch pat bs with
      | none => simp [hj] at h
      | some j =>
        simp only [hj, Option.map_some, Option.some.injEq] at h
        subst h
        obtain ⟨h1, h2⟩ := ih hj
        exact ⟨by simpa using h1, by simp; omega⟩

theorem isPrefixOf_eq_take_beq (pat s : Bytes) : (s.take pat.length == pat) = pat.isPrefixOf s := by
  rw [Bool.eq_iff_iff, beq_iff_eq, List.isPrefixOf_iff_prefix, List.prefix_iff_eq_take]
  exact eq_comm

theorem findExactLoop_spec (doc : Bytes) (p : UInt8) (ps : Bytes) (hH : doc.length ≤ HALF) :
    ∀ fuel (w : Cur), w.off + w.len = doc.length → w.len < fuel →
      findExactLoop doc (p :: ps) fuel w = .ok (match firstMatch (p :: ps) (doc.drop w.off) with
        | some k => (some (w.off + k), Err.none) | none => (none, Err.matchNotFound)) := by
  intro fuel
  induction fuel with
  | zero => intro w _ h; omega
  | succ f ih =>
    intro w hs hf
    unfold findExactLoop
    by_cases h0 : w.len = 0
    · have : doc.drop w.off = [] := by apply List.drop_of_length_le; omega
      simp [h0, this, firstMatch]
    · simp only [h0, if_false, List.headD_cons]
      rw [memchr_ok (by omega), take_drop_suffix hs]
      simp only [bind, Except.bind]
      cases hk : idxOf p (doc.drop w.off) with
      | none =>
        have hn := idxOf_none.mp hk
        have := @firstMatch_skip p ps (doc.drop w.off) [] hn
        simp only [List.append_nil] at this
        simp [this, firstMatch]
      | some k =>
        obtain ⟨hsplit, hnot⟩ := idxOf_split hk
        have hklt := (idxOf_some hk).1
        simp only [List.length_drop] at hklt
        have hadv : advance w k = ⟨w.off + k, w.len - k⟩ := advance_eq (by omega) (by omega)
        simp only [hadv]
        have hskip : firstMatch (p :: ps) (doc.drop w.off) = (firstMatch (p :: ps) (doc.drop (w.off + k))).map (· + k) := by
          have h1 := @firstMatch_skip p ps ((doc.drop w.off).take k) ((doc.drop w.off).drop k) hnot
          rw [List.take_append_drop] at h1
          rw [h1, List.drop_drop]
          have : ((doc.drop w.off).take k).length = k := by simp; omega
          rw [this]
        by_cases hshort : w.len - k < (p :: ps).length
        · simp only [hshort, if_true]
          have : firstMatch (p :: ps) (doc.drop (w.off + k)) = none :=
            firstMatch_none_of_short (by simp at hshort ⊢; omega)
          simp [hskip, this]
        · simp only [hshort, if_false]
          rw [memcmpEq_ok (by simp at hshort ⊢; omega), isPrefixOf_eq_take_beq]
          have hne : doc.drop (w.off + k) = p :: doc.drop (w.off + k + 1) := by
            have hg := (idxOf_some hk).2.1
            rw [List.getElem?_drop] at hg
            have hlt : w.off + k < doc.length := by omega
            rw [List.drop_eq_getElem_cons hlt]
            rw [List.getElem?_eq_getElem hlt] at hg
            rw [Option.some.inj hg]
          by_cases heq : (p :: ps).isPrefixOf (doc.drop (w.off + k)) = true
          · simp only [heq, if_true]
            have : firstMatch (p :: ps) (doc.drop (w.off + k)) = some 0 := by
              rw [hne] at heq ⊢; rw [firstMatch_cons]; simp only [heq, if_true]
            simp [hskip, this]
          · simp only [heq, Bool.false_eq_true, if_false]
            have hadv1 : advance (⟨w.off + k, w.len - k⟩ : Cur) 1 = ⟨w.off + k + 1, w.len - k - 1⟩ :=
              advance_eq (by simp; omega) (by simp at hshort ⊢; omega)
            rw [hadv1, ih _ (by simp at hshort ⊢; omega) (by simp; omega)]
            have : firstMatch (p :: ps) (doc.drop (w.off + k)) = (firstMatch (p :: ps) (doc.drop (w.off + k + 1))).map (· + 1) := by
              rw [hne] at heq
              conv => lhs; rw [hne]
              rw [firstMatch_cons]; simp only [heq, Bool.false_eq_true, if_false]
            rw [hskip, this]
            cases firstMatch (p :: ps) (doc.drop (w.off + k + 1)) with
            | none => simp
            | some j => simp; omega

/-- exact result of `aws_byte_cursor_find_exact` on a suffix window of the document -/
def findSpec (doc : Bytes) (c : Cur) (pat : Bytes) : Option Nat × Err :=
  if pat.length > c.len then (none, .matchNotFound)
  else if pat.length < 1 then (none, .shortBuffer)
  else match firstMatch pat (doc.drop c.off) with
    | some k => (some (c.off + k), .none)
    | none => (none, .matchNotFound)

theorem findExact_spec (doc : Bytes) (hH : doc.length ≤ HALF) (c : Cur) (pat : Bytes)
    (hs : c.off + c.len = doc.length) : findExact doc c pat = .ok (findSpec doc c pat) := by
  unfold findExact findSpec
  by_cases h1 : pat.length > c.len
  · simp [h1]
  · by_cases h2 : pat.length < 1
    · simp [h1, h2]
    · simp only [h1, h2, if_false]
      cases pat with
      | nil => simp at h2
      | cons p ps => exact findExactLoop_spec doc p ps hH _ c hs (by omega)

/-- what a successful search guarantees -/
theorem findSpec_some {doc : Bytes} {c : Cur} {pat : Bytes} {pos : Nat} {e : Err}
    (hs : c.off + c.len = doc.length) (h : findSpec doc c pat = (some pos, e)) :
    c.off ≤ pos ∧ pos + pat.length ≤ doc.length ∧ pat <+: doc.drop pos ∧ e = .none := by
  unfold findSpec at h
  split at h
  · simp at h
  · split at h
    · simp at h
    · split at h
      · rename_i k hk
        simp only [Prod.mk.injEq, Option.some.injEq] at h
        obtain ⟨rfl, rfl⟩ := h
        obtain ⟨h1, h2⟩ := firstMatch_some hk
        simp only [List.length_drop] at h2
        refine ⟨by omega, by omega, ?_, rfl⟩
        simpa [List.drop_drop] using h1
      · simp at h

end AwsVerif.Xml
