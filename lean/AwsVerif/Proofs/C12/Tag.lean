import AwsVerif.Proofs.C12.Render
set_option linter.unusedSimpArgs false
/-! What `s_load_node_decl` reads off a rendered start tag. -/
namespace AwsVerif.Xml

theorem seg_of_drop {doc s : Bytes} {off : Nat} (h : doc.drop off = s) (i m : Nat) :
    seg doc (off + i) (off + i + m) = (s.drop i).take m := by
  unfold seg
  rw [← h, List.drop_drop]
  congr 1; omega

theorem viewBytes_some (doc : Bytes) (o n : Nat) : viewBytes doc (some ⟨o, n⟩) = seg doc o (o + n) := by
  simp [viewBytes, seg]

theorem drop_of_drop {doc s : Bytes} {off : Nat} (h : doc.drop off = s) (i : Nat) : doc.drop (off + i) = s.drop i := by
  rw [← h, List.drop_drop]

theorem take_append_left' (a b : Bytes) : (a ++ b).take a.length = a := by simp
theorem drop_append_left' (a b : Bytes) : (a ++ b).drop a.length = b := by simp

theorem length_le_of_drop {doc s : Bytes} {off : Nat} (h : doc.drop off = s) (hs : s ≠ []) : off + s.length ≤ doc.length := by
  have : (doc.drop off).length = s.length := by rw [h]
  simp only [List.length_drop] at this
  have h2 : s.length ≠ 0 := by intro e; exact hs (List.eq_nil_of_length_eq_zero e)
  omega

theorem length_of_drop {doc s : Bytes} {off : Nat} (h : doc.drop off = s) (ho : off ≤ doc.length) : off + s.length = doc.length := by
  have : (doc.drop off).length = s.length := by rw [h]
  simp only [List.length_drop] at this
  omega

-- ---------------------------------------------------------------- character classes
theorem nameByte_ne {b : UInt8} (h : nameByte b = true) :
    b ≠ LT ∧ b ≠ GT ∧ b ≠ SLASH ∧ b ≠ SPACE ∧ b ≠ EQS ∧ b ≠ QUOTE ∧ b ≠ 9 ∧ b ≠ 10 ∧ b ≠ 13 ∧ b ≠ BANG ∧ b ≠ QMARK := by
  simp only [nameByte, Bool.not_eq_true', Bool.or_eq_false_iff, decide_eq_false_iff_not] at h
  obtain ⟨⟨⟨⟨⟨⟨⟨⟨⟨⟨h1, h2⟩, h3⟩, h4⟩, h5⟩, h6⟩, h7⟩, h8⟩, h9⟩, h10⟩, h11⟩ := h
  exact ⟨h1, h2, h3, h4, h5, h6, h7, h8, h9, h10, h11⟩

theorem valueByte_ne {b : UInt8} (h : valueByte b = true) : b ≠ LT ∧ b ≠ GT ∧ b ≠ SPACE ∧ b ≠ QUOTE := by
  simp only [valueByte, Bool.not_eq_true', Bool.or_eq_false_iff, decide_eq_false_iff_not] at h
  obtain ⟨⟨⟨h1, h2⟩, h3⟩, h4⟩ := h
  exact ⟨h1, h2, h3, h4⟩

theorem not_mem_of_all {P : UInt8 → Bool} {c : UInt8} {l : Bytes} (h : ∀ b ∈ l, P b = true) (hc : P c = false) : c ∉ l := by
  intro hm; have := h c hm; rw [hc] at this; cases this

theorem name_not_mem {n : Bytes} (h : NameOk n) :
    LT ∉ n ∧ GT ∉ n ∧ SLASH ∉ n ∧ SPACE ∉ n ∧ EQS ∉ n ∧ QUOTE ∉ n := by
  refine ⟨not_mem_of_all h.2 (by decide), not_mem_of_all h.2 (by decide), not_mem_of_all h.2 (by decide),
    not_mem_of_all h.2 (by decide), not_mem_of_all h.2 (by decide), not_mem_of_all h.2 (by decide)⟩

theorem value_not_mem {v : Bytes} (h : ∀ b ∈ v, valueByte b = true) :
    LT ∉ v ∧ GT ∉ v ∧ SPACE ∉ v ∧ QUOTE ∉ v := by
  refine ⟨not_mem_of_all h (by decide), not_mem_of_all h (by decide), not_mem_of_all h (by decide),
    not_mem_of_all h (by decide)⟩

/-- `name="value"` (an attribute piece without its leading space) -/
def pairBytes (a : Bytes × Bytes) : Bytes := a.1 ++ EQS :: QUOTE :: (a.2 ++ [QUOTE])

theorem attrBytes_eq (a : Bytes × Bytes) : attrBytes a = SPACE :: pairBytes a := rfl

theorem not_mem_pairBytes {a : Bytes × Bytes} (h : AttrOk a) {c : UInt8} (h1 : nameByte c = false) (h2 : valueByte c = false)
    (h3 : c ≠ EQS) (h4 : c ≠ QUOTE) : c ∉ pairBytes a := by
  have hn := not_mem_of_all h.1.2 h1
  have hv := not_mem_of_all h.2 h2
  simp only [pairBytes, List.mem_append, List.mem_cons, List.not_mem_nil, or_false, not_or]
  exact ⟨hn, h3, h4, hv, h4⟩

theorem not_mem_attrsBytes {as : List (Bytes × Bytes)} (h : ∀ a ∈ as, AttrOk a) {c : UInt8} (h1 : nameByte c = false)
    (h2 : valueByte c = false) (h3 : c ≠ EQS) (h4 : c ≠ QUOTE) (h5 : c ≠ SPACE) : c ∉ attrsBytes as := by
  induction as with
  | nil => simp [attrsBytes]
  | cons a as ih =>
    simp only [attrsBytes, attrBytes_eq, List.cons_append, List.mem_cons, List.mem_append, not_or]
    exact ⟨h5, not_mem_pairBytes (h a List.mem_cons_self) h1 h2 h3 h4, ih (fun x hx => h x (List.mem_cons_of_mem _ hx))⟩

theorem LT_not_mem_decl {n : Bytes} {as : List (Bytes × Bytes)} (hn : NameOk n) (ha : ∀ a ∈ as, AttrOk a) :
    LT ∉ declBytes n as := by
  simp only [declBytes, List.mem_append, not_or]
  exact ⟨(name_not_mem hn).1, not_mem_attrsBytes ha (by decide) (by decide) (by decide) (by decide) (by decide)⟩

theorem GT_not_mem_decl {n : Bytes} {as : List (Bytes × Bytes)} (hn : NameOk n) (ha : ∀ a ∈ as, AttrOk a) :
    GT ∉ declBytes n as := by
  simp only [declBytes, List.mem_append, not_or]
  exact ⟨(name_not_mem hn).2.1, not_mem_attrsBytes ha (by decide) (by decide) (by decide) (by decide) (by decide)⟩

-- ---------------------------------------------------------------- quote trimming on `"value"`
theorem leadQ_of_head {x : UInt8} {xs : Bytes} (h : x ≠ QUOTE) : leadQ (x :: xs) = 0 := by simp [leadQ, h]

theorem trim_quoted (v : Bytes) (hv : QUOTE ∉ v) :
    let s := QUOTE :: (v ++ [QUOTE])
    ((s.drop (leadQ s)).take (s.length - leadQ s - trailQ (s.drop (leadQ s)))) = v := by
  cases v with
  | nil => simp [leadQ, trailQ]
  | cons x xs =>
    simp only [List.mem_cons, not_or] at hv
    have hx : x ≠ QUOTE := fun e => hv.1 e.symm
    have hl : leadQ (QUOTE :: (x :: xs ++ [QUOTE])) = 1 := by
      simp only [leadQ, List.cons_append, if_true, hx, if_false]
    simp only [hl, List.drop_succ_cons, List.drop_zero]
    have ht : trailQ (x :: xs ++ [QUOTE]) = 1 := by
      rw [trailQ_append_single]
      simp only [if_true]
      have : trailQ (x :: xs) = 0 := by
        unfold trailQ
        have hne : (x :: xs).reverse ≠ [] := by simp
        cases hr : (x :: xs).reverse with
        | nil => exact absurd hr hne
        | cons y ys =>
          apply leadQ_of_head
          intro e
          have : y ∈ (x :: xs).reverse := by rw [hr]; exact List.mem_cons_self
          rw [List.mem_reverse] at this
          simp only [List.mem_cons] at this
          rcases this with h | h
          · exact hx (h ▸ e)
          · exact hv.2 (e ▸ h)
      rw [this]
    rw [ht]
    simp

-- ---------------------------------------------------------------- one attribute
theorem splitAux_cons_self (c : UInt8) (bs : Bytes) (st ln : Nat) :
    splitAux c (c :: bs) st ln = ⟨st, ln⟩ :: splitAux c bs (st + ln + 1) 0 := by
  rw [splitAux]; simp

theorem loadAttr_render (doc : Bytes) (a : Bytes × Bytes) (h : AttrOk a) (q : Nat) (rest : Bytes) (le : Err)
    (hd : doc.drop q = pairBytes a ++ rest) :
    Ok (loadAttr doc ⟨q, (pairBytes a).length⟩ le)
      (fun r => r.2 = le ∧ ∃ x, r.1 = some x ∧ viewBytes doc x.name = a.1 ∧ viewBytes doc x.value = a.2) := by
  have hne : pairBytes a ++ rest ≠ [] := by simp [pairBytes]
  have hlen := length_le_of_drop hd hne
  simp only [List.length_append] at hlen
  unfold loadAttr splitOnCharN1
  rw [memchr_ok (by simp only; omega)]
  have hseg : (doc.drop q).take (pairBytes a).length = a.1 ++ EQS :: (QUOTE :: (a.2 ++ [QUOTE])) := by
    rw [hd, take_append_left']; rfl
  have hpl : (pairBytes a).length = a.1.length + (a.2.length + 2) + 1 := by
    simp [pairBytes]; omega
  simp only [bind, Except.bind, pure, Except.pure, hseg, idxOf_at (name_not_mem h.1).2.2.2.2.1]
  rw [memchr_ok (by omega)]
  simp only [hpl, show a.1.length + (a.2.length + 2) + 1 - (a.1.length + 1) = a.2.length + 2 by omega]
  simp only [List.getElem?_cons_zero, List.getElem?_cons_succ, trimQuotes]
  have hq2 : q + a.1.length + 1 + (a.2.length + 2) ≤ doc.length := by
    simp only [pairBytes, List.length_append, List.length_cons, List.length_nil] at hlen; omega
  rw [leftTrim_spec doc _ _ hq2]
  have hsv : seg doc (q + a.1.length + 1) (q + a.1.length + 1 + (a.2.length + 2)) = QUOTE :: (a.2 ++ [QUOTE]) := by
    have := seg_of_drop hd (a.1.length + 1) (a.2.length + 2)
    rw [show q + (a.1.length + 1) = q + a.1.length + 1 by omega] at this
    rw [this]
    simp only [pairBytes, List.append_assoc]
    rw [show a.1.length + 1 = (a.1 ++ [EQS]).length by simp]
    rw [show a.1 ++ (EQS :: QUOTE :: (a.2 ++ [QUOTE]) ++ rest) = (a.1 ++ [EQS]) ++ ((QUOTE :: (a.2 ++ [QUOTE])) ++ rest) by simp]
    rw [drop_append_left']
    rw [show a.2.length + 2 = (QUOTE :: (a.2 ++ [QUOTE])).length by simp]
    rw [take_append_left']
  rw [hsv]
  simp only [bind, Except.bind]
  have hl := leadQ_le (QUOTE :: (a.2 ++ [QUOTE]))
  simp only [List.length_cons, List.length_append, List.length_nil] at hl
  rw [rightTrim_spec doc _ _ (by omega)]
  refine ⟨_, rfl, rfl, _, rfl, ?_, ?_⟩
  · simp only
    rw [viewBytes_some]
    have := seg_of_drop hd 0 a.1.length
    simp only [Nat.add_zero, List.drop_zero] at this
    rw [this, pairBytes, List.append_assoc, take_append_left']
  · simp only
    rw [viewBytes_some]
    have key := trim_quoted a.2 (value_not_mem h.2).2.2.2
    simp only [List.length_cons, List.length_append, List.length_nil] at key
    have hl2 := leadQ_le (QUOTE :: (a.2 ++ [QUOTE]))
    simp only [List.length_cons, List.length_append, List.length_nil] at hl2
    generalize leadQ (QUOTE :: (a.2 ++ [QUOTE])) = l at key hl2 ⊢
    have hseg2 : seg doc (q + a.1.length + 1 + l) (q + a.1.length + 1 + (a.2.length + 2)) = (QUOTE :: (a.2 ++ [QUOTE])).drop l := by
      rw [← hsv, seg_drop]
    have hseg2' : seg doc (q + a.1.length + 1 + l) (q + a.1.length + 1 + l + (a.2.length + 2 - l)) = (QUOTE :: (a.2 ++ [QUOTE])).drop l := by
      rw [← hseg2]; congr 1; omega
    rw [hseg2']
    generalize trailQ ((QUOTE :: (a.2 ++ [QUOTE])).drop l) = t at key ⊢
    have hseg3 : seg doc (q + a.1.length + 1 + l) (q + a.1.length + 1 + l + (a.2.length + 2 - l - t))
        = ((QUOTE :: (a.2 ++ [QUOTE])).drop l).take (a.2.length + 2 - l - t) := by
      rw [← hseg2]
      unfold seg
      rw [List.take_take]
      congr 1; omega
    rw [hseg3]
    rw [show a.2.length + 2 = a.2.length + 0 + 1 + 1 by omega]
    exact key

-- ---------------------------------------------------------------- all attributes
/-- the pieces `aws_byte_cursor_split_on_char(decl, ' ')` yields after the name; `p` is the offset of the
space that starts the first attribute -/
def attrCurs : Nat → List (Bytes × Bytes) → List Cur
  | _, [] => []
  | p, a :: as => ⟨p + 1, (pairBytes a).length⟩ :: attrCurs (p + 1 + (pairBytes a).length) as

theorem attrCurs_length (p : Nat) (as : List (Bytes × Bytes)) : (attrCurs p as).length = as.length := by
  induction as generalizing p with
  | nil => rfl
  | cons a as ih => simp [attrCurs, ih]

theorem SPACE_not_mem_pair {a : Bytes × Bytes} (h : AttrOk a) : SPACE ∉ pairBytes a :=
  not_mem_pairBytes h (by decide) (by decide) (by decide) (by decide)

theorem splitAux_attrs (as : List (Bytes × Bytes)) (h : ∀ a ∈ as, AttrOk a) (st ln : Nat) :
    splitAux SPACE (attrsBytes as) st ln = ⟨st, ln⟩ :: attrCurs (st + ln) as := by
  induction as generalizing st ln with
  | nil => simp [attrsBytes, splitAux, attrCurs]
  | cons a as ih =>
    have ha := h a List.mem_cons_self
    simp only [attrsBytes, attrBytes_eq, List.cons_append]
    rw [splitAux_cons_self, splitAux_append_not_mem (SPACE_not_mem_pair ha), ih (fun x hx => h x (List.mem_cons_of_mem _ hx))]
    simp only [attrCurs, Nat.zero_add]

theorem splitAux_decl (n : Bytes) (as : List (Bytes × Bytes)) (hn : NameOk n) (h : ∀ a ∈ as, AttrOk a) (p : Nat) :
    splitAux SPACE (declBytes n as) p 0 = ⟨p, n.length⟩ :: attrCurs (p + n.length) as := by
  unfold declBytes
  rw [splitAux_append_not_mem (name_not_mem hn).2.2.2.1, splitAux_attrs as h]
  simp

theorem loadAttrs_render (doc : Bytes) : ∀ (as : List (Bytes × Bytes)) (p : Nat) (rest : Bytes) (le : Err),
    (∀ a ∈ as, AttrOk a) → doc.drop p = attrsBytes as ++ rest →
    Ok (loadAttrs doc (attrCurs p as) le)
      (fun r => r.2 = le ∧ r.1.map (fun x => (viewBytes doc x.name, viewBytes doc x.value)) = as) := by
  intro as
  induction as with
  | nil => intro p rest le _ _; exact ⟨_, rfl, rfl, rfl⟩
  | cons a as ih =>
    intro p rest le h hd
    have ha := h a List.mem_cons_self
    simp only [attrCurs]
    unfold loadAttrs
    simp only [attrsBytes, attrBytes_eq, List.cons_append, List.append_assoc] at hd
    have hd1 : doc.drop (p + 1) = pairBytes a ++ (attrsBytes as ++ rest) := by
      rw [drop_of_drop hd 1]; rfl
    obtain ⟨⟨x, le1⟩, hx, hle, y, hy, hy1, hy2⟩ := loadAttr_render doc a ha (p + 1) _ le hd1
    rw [hx]
    simp only [bind, Except.bind] at hle hy ⊢
    subst hle; subst hy
    have hd2 : doc.drop (p + 1 + (pairBytes a).length) = attrsBytes as ++ rest := by
      rw [drop_of_drop hd1 (pairBytes a).length, drop_append_left']
    obtain ⟨⟨xs, le2⟩, hxs, hle2, hmap⟩ := ih (p + 1 + (pairBytes a).length) rest le1 (fun z hz => h z (List.mem_cons_of_mem _ hz)) hd2
    rw [hxs]
    simp only at hle2 hmap
    refine ⟨_, rfl, hle2, ?_⟩
    simp only [List.map_cons, hy1, hy2, hmap]

theorem attrsBytes_last {as : List (Bytes × Bytes)} (h : as ≠ []) : ∃ x, attrsBytes as = x ++ [QUOTE] := by
  induction as with
  | nil => exact absurd rfl h
  | cons a as ih =>
    cases as with
    | nil =>
      refine ⟨SPACE :: (a.1 ++ EQS :: QUOTE :: a.2), ?_⟩
      simp [attrsBytes, attrBytes]
    | cons b bs =>
      obtain ⟨x, hx⟩ := ih (by simp)
      refine ⟨attrBytes a ++ x, ?_⟩
      rw [attrsBytes, hx, List.append_assoc]

theorem decl_last {n : Bytes} {as : List (Bytes × Bytes)} (hn : NameOk n) :
    ∃ y z, declBytes n as = y ++ [z] ∧ z ≠ SLASH := by
  cases as with
  | nil =>
    have hne := hn.1
    refine ⟨n.dropLast, n.getLast hne, ?_, ?_⟩
    · simp only [declBytes, attrsBytes, List.append_nil]; exact (List.dropLast_concat_getLast hne).symm
    · have := hn.2 _ (List.getLast_mem hne)
      exact (nameByte_ne this).2.2.1
  | cons a as =>
    obtain ⟨x, hx⟩ := attrsBytes_last (as := a :: as) (by simp)
    exact ⟨n ++ x, QUOTE, by rw [declBytes, hx, List.append_assoc], by decide⟩

theorem getElem_of_drop {doc s : Bytes} {off i : Nat} {b : UInt8} (h : doc.drop off = s) (hb : s[i]? = some b)
    : ∃ (hlt : off + i < doc.length), doc[off + i] = b := by
  rw [← h, List.getElem?_drop] at hb
  have hlt : off + i < doc.length := by
    cases hlt : decide (off + i < doc.length) with
    | true => exact of_decide_eq_true hlt
    | false =>
      have : doc.length ≤ off + i := by have := of_decide_eq_false hlt; omega
      rw [List.getElem?_eq_none this] at hb; cases hb
  refine ⟨hlt, ?_⟩
  rw [List.getElem?_eq_getElem hlt] at hb
  exact Option.some.inj hb

/-- `s_load_node_decl` on a rendered start tag: the name and the attributes exactly, not an empty element;
more than 10 attributes are rejected -/
theorem loadNodeDecl_render (doc : Bytes) (n : Bytes) (as : List (Bytes × Bytes)) (hn : NameOk n)
    (ha : ∀ a ∈ as, AttrOk a) (p : Nat) (more : Bytes) (dab : Cur) (le : Err)
    (hd : doc.drop p = declBytes n as ++ GT :: more) :
    Ok (loadNodeDecl doc ⟨p, (declBytes n as).length⟩ dab le)
      (fun r => if as.length ≤ 10 then
          r.2 = le ∧ ∃ node, r.1 = some node ∧ node.name = ⟨p, n.length⟩ ∧ node.docAtBody = dab ∧ node.isEmpty = false ∧
            node.attrs.map (fun x => (viewBytes doc x.name, viewBytes doc x.value)) = as
        else r = (none, .invalidXml)) := by
  have hlen := length_le_of_drop hd (by simp)
  simp only [List.length_append, List.length_cons] at hlen
  have hnpos : 0 < n.length := List.length_pos_iff.mpr hn.1
  have hdl : (declBytes n as).length = n.length + (attrsBytes as).length := by simp [declBytes]
  unfold loadNodeDecl
  have he : ¬ (p + (declBytes n as).length = 0) := by omega
  simp only [he, if_false]
  obtain ⟨y, z, hyz, hz⟩ := decl_last (as := as) hn
  have hylen : (declBytes n as).length = y.length + 1 := by rw [hyz]; simp
  have hzget : (declBytes n as ++ GT :: more)[y.length]? = some z := by
    rw [hyz]; simp
  obtain ⟨hlt, hget⟩ := getElem_of_drop hd hzget
  have hidx : p + (declBytes n as).length - 1 = p + y.length := by omega
  rw [rd_ok (by omega)]
  simp only [bind, Except.bind, pure, Except.pure, hidx, hget]
  rw [splitOnChar_spec doc _ SPACE SPLIT_CAP (by simp only; omega)]
  have hseg : seg doc p (p + (declBytes n as).length) = declBytes n as := by
    have := seg_of_drop hd 0 (declBytes n as).length
    simpa using this
  simp only [splitSpec, hseg, splitAux_decl n as hn ha p, List.length_cons, attrCurs_length, SPLIT_CAP_eq]
  by_cases hcap : as.length ≤ 10
  · have : as.length + 1 ≤ 11 := by omega
    simp only [this, hcap, if_true]
    have hd2 : doc.drop (p + n.length) = attrsBytes as ++ GT :: more := by
      rw [drop_of_drop hd n.length, declBytes, List.append_assoc, drop_append_left']
    obtain ⟨⟨xs, le2⟩, hxs, hle2, hmap⟩ := loadAttrs_render doc as (p + n.length) _ le ha hd2
    rw [hxs]
    simp only at hle2 hmap ⊢
    -- all attributes found a slot in `node->attributes`
    have hxl : xs.length = as.length := by rw [← hmap, List.length_map]
    have htake : xs.take ATTR_CAP = xs := List.take_of_length_le (by rw [ATTR_CAP_eq]; omega)
    rw [htake]
    refine ⟨_, rfl, hle2, _, rfl, rfl, rfl, ?_, hmap⟩
    simp [hz]
  · have : ¬ (as.length + 1 ≤ 11) := by omega
    simp only [this, hcap, if_false]
    exact ⟨_, rfl, rfl⟩

end AwsVerif.Xml
