import AwsVerif.Proofs.C12.Balanced
set_option linter.unusedSimpArgs false
/-! The traversal of a rendered tree reports exactly the expected events. -/
namespace AwsVerif.Xml

/-- events reported so far, oldest first, as bytes -/
def evs (doc : Bytes) (st : PState) : List XEvent := st.events.reverse.map (resolve doc)

theorem evs_congr (doc : Bytes) {st st' : PState} (h : st'.events = st.events) : evs doc st' = evs doc st := by
  simp [evs, h]

theorem evs_cons (doc : Bytes) {st st' : PState} {e : Event} (h : st'.events = e :: st.events) :
    evs doc st' = evs doc st ++ [resolve doc e] := by
  simp [evs, h]

/-- where the cursor stands after a block of `n` bytes -/
def curAt (doc : Bytes) (pos : Nat) : Cur := ⟨pos, doc.length - pos⟩

/-- the state a successful step leaves behind -/
structure After (doc : Bytes) (md : Nat) (pos depth : Nat) (st : PState) : Prop where
  cur : st.cur = curAt doc pos
  depth : st.depth = depth
  error : st.error = false
  maxDepth : st.maxDepth = md

theorem GT_not_mem_name {n : Bytes} (h : NameOk n) : GT ∉ n := (name_not_mem h).2.1

theorem renderKids_cons_text (b : Bytes) (ts : List Tree) : renderKids (.text b :: ts) = b ++ renderKids ts := by
  simp [renderKids, toksL, Tree.toks, renderToks, renderToks_append, Tok.render]

theorem renderKids_cons_elem (n : Bytes) (as : List (Bytes × Bytes)) (ks ts : List Tree) :
    renderKids (.elem n as ks :: ts) = LT :: (declBytes n as ++ GT :: (renderKids ks ++ (closePatOf n ++ renderKids ts))) := by
  simp [renderKids, toksL, Tree.toks, renderToks, renderToks_append, Tok.render, closePatOf]

theorem renderKids_nil : renderKids [] = [] := rfl

/-- the post-condition of a callback / of the child loop against the expectation `x` -/
structure Matches (doc : Bytes) (md : Nat) (st : PState) (x : List XEvent × Bool) (pos depth : Nat) (r : PState × Bool) : Prop where
  ok : r.2 = x.2
  events : evs doc r.1 = evs doc st ++ x.1
  after : x.2 = true → After doc md pos depth r.1

/-- what the callback is handed for the element `t` whose start tag has just been read -/
def CBPre (doc : Bytes) (_md : Nat) (st : PState) (node : Node) (tail : Bytes) : Tree → Prop
  | .text _ => False
  | .elem n as ks =>
    NameOk n ∧ WFL ks ∧
    node.name.len = n.length ∧ seg doc node.name.off (node.name.off + node.name.len) = n ∧
    node.name.off + node.name.len ≤ doc.length ∧ node.docAtBody = st.cur ∧ node.isEmpty = false ∧
    node.attrs.map (fun x => (viewBytes doc x.name, viewBytes doc x.value)) = as ∧ as.length ≤ 10 ∧
    doc.drop st.cur.off = renderKids ks ++ (closePatOf n ++ tail)

/-- offset behind the end tag of `t` when its children start at `off` -/
def endOf (off : Nat) : Tree → Nat
  | .text b => off + b.length
  | .elem n _ ks => off + (renderKids ks).length + (closePatOf n).length

theorem resolve_mkEvent (doc : Bytes) (path : List Nat) (st : PState) (node : Node) (a : Action) :
    resolve doc (mkEvent path st node a) =
      ⟨path, st.depth, viewBytes doc (some node.name), node.attrs.map (fun x => (viewBytes doc x.name, viewBytes doc x.value)), none⟩ := by
  simp [resolve, mkEvent]

mutual
theorem callback_render (doc : Bytes) (hH : doc.length ≤ HALF) (prog : Prog) (md : Nat) :
    ∀ (t : Tree) (f : Nat) (st : PState) (node : Node) (path : List Nat) (tail : Bytes),
      CBPre doc md st node tail t → st.cur.off + st.cur.len = doc.length → st.error = false → st.maxDepth = md →
      st.cur.len < f →
      Ok (callbackAndSkip doc prog (traverseWith (nodeLoop doc prog f)) st node path)
        (Matches doc md st (expectNode prog md path st.depth t) (endOf st.cur.off t) st.depth)
  | .text _, _, _, _, _, _, h, _, _, _, _ => by cases h
  | .elem n as ks, f, st, node, path, tail, h, hs, herr, hmd, hf => by
    obtain ⟨hn, hks, hnl, hseg, hnv, hdab, hemp, hattrs, hcap, hd⟩ := h
    have hnb : viewBytes doc (some node.name) = n := by
      rw [show node.name = ⟨node.name.off, node.name.len⟩ from rfl, viewBytes_some, hseg]
    have hev : ∀ a, resolve doc (mkEvent path st node a) = ⟨path, st.depth, n, as, none⟩ := by
      intro a; rw [resolve_mkEvent, hnb, hattrs]
    have hcap' : ¬ (as.length > 10) := by omega
    unfold callbackAndSkip
    simp only [bind, Except.bind, pure, Except.pure]
    cases hact : prog path with
    | abort =>
      simp only
      refine ⟨_, rfl, ⟨?_, ?_, ?_⟩⟩
      · simp [expectNode, hcap', hact]
      · simp only [PState.raise, expectNode, hcap', hact, if_false]
        rw [evs_cons doc (st := st) (e := mkEvent path st node .abort) rfl, hev]
      · simp [expectNode, hcap', hact]
    | skip =>
      simp only
      obtain ⟨⟨st2, ok, b, cp⟩, hadv, hA⟩ := advanceToClosingTag_render doc hH
        { st with events := mkEvent path st node .skip :: st.events } node n hn ks hks tail hs herr hseg hnl hnv hdab hemp hd
      rw [hadv]
      simp only at hA ⊢
      by_cases hmax : n.length ≤ MAX_NAME_LEN
      · simp only [hmax, if_true] at hA
        obtain ⟨hok, hcur, hdep, hmd2, herr2, hevs, _⟩ := hA
        subst hok
        simp only [if_true]
        refine ⟨_, rfl, ⟨?_, ?_, ?_⟩⟩
        · simp [expectNode, hcap', hact, hmax]
        · simp only [expectNode, hcap', hact, if_false]
          simp only [evs, hevs, setClose, List.reverse_cons, List.map_append, List.map_cons, List.map_nil]
          congr 2
          have := hev .skip
          simp only [resolve, mkEvent] at this ⊢
          exact this
        · intro _
          exact ⟨hcur, hdep, herr2, by rw [hmd2]; exact hmd⟩
      · simp only [hmax, if_false] at hA
        obtain ⟨hok, hevs⟩ := hA
        subst hok
        simp only [Bool.false_eq_true, if_false]
        refine ⟨_, rfl, ⟨?_, ?_, ?_⟩⟩
        · simp [expectNode, hcap', hact, hmax]
        · simp only [expectNode, hcap', hact, if_false]
          simp only [evs, hevs, List.reverse_cons, List.map_append, List.map_cons, List.map_nil]
          rw [hev]
        · simp [expectNode, hcap', hact, hmax]
    | body =>
      simp only
      obtain ⟨⟨st2, ok, b, cp⟩, hadv, hA⟩ := advanceToClosingTag_render doc hH
        { st with events := mkEvent path st node .body :: st.events } node n hn ks hks tail hs herr hseg hnl hnv hdab hemp hd
      rw [hadv]
      simp only at hA ⊢
      by_cases hmax : n.length ≤ MAX_NAME_LEN
      · simp only [hmax, if_true] at hA
        obtain ⟨hok, hcur, hdep, hmd2, herr2, hevs, hbody⟩ := hA
        subst hok
        simp only [if_true]
        refine ⟨_, rfl, ⟨?_, ?_, ?_⟩⟩
        · simp [expectNode, hcap', hact, hmax]
        · simp only [expectNode, hcap', hact, if_false, hmax, if_true]
          simp only [evs, hevs, setBody, List.reverse_cons, List.map_append, List.map_cons, List.map_nil]
          congr 2
          have := hev .body
          simp only [resolve, mkEvent] at this ⊢
          simp only [XEvent.mk.injEq] at this ⊢
          refine ⟨this.1, this.2.1, this.2.2.1, this.2.2.2.1, ?_⟩
          rw [hbody]
          simp only [Option.map_some, Option.some.injEq]
          rw [viewBytes_some]
          have := seg_of_drop hd 0 (renderKids ks).length
          simp only [Nat.add_zero, List.drop_zero] at this
          rw [this, take_append_left']
        · intro _
          exact ⟨hcur, hdep, herr2, by rw [hmd2]; exact hmd⟩
      · simp only [hmax, if_false] at hA
        obtain ⟨hok, hevs⟩ := hA
        subst hok
        simp only [Bool.false_eq_true, if_false]
        refine ⟨_, rfl, ⟨?_, ?_, ?_⟩⟩
        · simp [expectNode, hcap', hact, hmax]
        · simp only [expectNode, hcap', hact, if_false, hmax]
          simp only [evs, hevs, List.reverse_cons, List.map_append, List.map_cons, List.map_nil]
          rw [hev]
        · simp [expectNode, hcap', hact, hmax]
    | descend =>
      simp only
      unfold traverseWith
      by_cases hdep : st.depth ≥ st.maxDepth
      · have hdep2 : st.depth ≥ md := hmd ▸ hdep
        simp only [hdep, if_true]
        refine ⟨_, rfl, ⟨?_, ?_, ?_⟩⟩
        · simp [expectNode, hcap', hact, hdep2]
        · simp only [expectNode, hcap', hact, if_false, hdep2, if_true]
          rw [evs_cons doc (st := st) (e := mkEvent path st node .descend) rfl, hev]
        · simp [expectNode, hcap', hact, hdep2]
      · have hdep2 : ¬ st.depth ≥ md := hmd ▸ hdep
        simp only [hdep, if_false]
        obtain ⟨r, hr, hM⟩ := loop_render doc hH prog md ks f
          { st with depth := st.depth + 1, events := mkEvent path st node .descend :: st.events } path 0 [] n tail
          hks hn (by simp) hs herr hmd hf (by simpa using hd)
        refine ⟨r, hr, ⟨?_, ?_, ?_⟩⟩
        · rw [hM.ok]; simp [expectNode, hcap', hact, hdep2]
        · rw [hM.events]
          simp only [expectNode, hcap', hact, if_false, hdep2]
          rw [evs_cons doc (st := st) (e := mkEvent path st node .descend) rfl, hev]
          simp
        · intro hx
          have hx' : (expectKids prog md path 0 (st.depth + 1) ks).2 = true := by
            simpa [expectNode, hcap', hact, hdep2] using hx
          have := hM.after hx'
          simp only [List.length_nil, Nat.add_zero, Nat.add_sub_cancel] at this
          exact ⟨this.cur, this.depth, this.error, this.maxDepth⟩
theorem loop_render (doc : Bytes) (hH : doc.length ≤ HALF) (prog : Prog) (md : Nat) :
    ∀ (ks : List Tree) (fuel : Nat) (st : PState) (path : List Nat) (idx : Nat) (junk pname tail : Bytes),
      WFL ks → NameOk pname → LT ∉ junk → st.cur.off + st.cur.len = doc.length → st.error = false → st.maxDepth = md →
      st.cur.len < fuel →
      doc.drop st.cur.off = junk ++ (renderKids ks ++ (closePatOf pname ++ tail)) →
      Ok (nodeLoop doc prog fuel st path idx)
        (Matches doc md st (expectKids prog md path idx st.depth ks)
          (st.cur.off + junk.length + (renderKids ks).length + (closePatOf pname).length) (st.depth - 1))
  | [], fuel, st, path, idx, junk, pname, tail, _, hp, hj, hs, herr, hmd, hf, hd => by
    cases fuel with
    | zero => omega
    | succ f =>
      have hS : doc.drop st.cur.off = junk ++ LT :: (SLASH :: (pname ++ GT :: tail)) := by
        rw [hd]; simp [renderKids_nil, closePatOf]
      have hlen := length_of_drop hS (by omega)
      simp only [List.length_append, List.length_cons] at hlen
      unfold nodeLoop
      simp only [herr, Bool.false_eq_true, if_false]
      rw [memchr_ok (by omega), take_drop_suffix hs]
      simp only [bind, Except.bind, pure, Except.pure]
      rw [hS, idxOf_at hj]
      simp only
      rw [memchr_ok (by omega), take_drop_suffix (by omega)]
      have hS2 : doc.drop (st.cur.off + junk.length) = (LT :: SLASH :: pname) ++ GT :: tail := by
        rw [drop_of_drop hS, drop_append_left']; simp
      have hgt : GT ∉ LT :: SLASH :: pname := by
        simp only [List.mem_cons, not_or]
        exact ⟨by decide, by decide, GT_not_mem_name hp⟩
      rw [hS2, idxOf_at hgt]
      simp only [List.length_cons]
      obtain ⟨hlt, hget⟩ := getElem_of_drop hS2 (i := 1) (b := SLASH) (by simp)
      rw [show st.cur.off + junk.length + 1 = st.cur.off + junk.length + 1 from rfl, rd_ok hlt]
      simp only [hget, if_true]
      have hadv : advance st.cur (junk.length + (pname.length + 1 + 1) + 1) =
          ⟨st.cur.off + (junk.length + (pname.length + 1 + 1) + 1), st.cur.len - (junk.length + (pname.length + 1 + 1) + 1)⟩ :=
        advance_eq (by omega) (by omega)
      rw [hadv]
      refine ⟨_, rfl, ⟨by simp [expectKids, herr], by simp [expectKids, evs], ?_⟩⟩
      intro _
      refine ⟨?_, rfl, rfl, hmd⟩
      simp only [curAt, renderKids_nil, List.length_nil, closePatOf, List.length_cons, List.length_append]
      congr 1 <;> omega
  | .text b :: ts, fuel, st, path, idx, junk, pname, tail, hw, hp, hj, hs, herr, hmd, hf, hd => by
    simp only [WFL, Tree.WF] at hw
    have hj2 : LT ∉ junk ++ b := by
      simp only [List.mem_append, not_or]
      exact ⟨hj, text_LT_not_mem hw.1⟩
    obtain ⟨r, hr, hM⟩ := loop_render doc hH prog md ts fuel st path idx (junk ++ b) pname tail hw.2 hp hj2 hs herr hmd hf
      (by rw [hd, renderKids_cons_text]; simp)
    refine ⟨r, hr, ⟨?_, ?_, ?_⟩⟩
    · rw [hM.ok]; simp [expectKids]
    · rw [hM.events]; simp [expectKids]
    · intro hx
      have hx' : (expectKids prog md path idx st.depth ts).2 = true := by simpa [expectKids] using hx
      have := hM.after hx'
      refine ⟨?_, this.depth, this.error, this.maxDepth⟩
      rw [this.cur, renderKids_cons_text]
      simp only [curAt, List.length_append]
      congr 1 <;> omega
  | .elem n as ks :: ts, fuel, st, path, idx, junk, pname, tail, hw, hp, hj, hs, herr, hmd, hf, hd => by
    simp only [WFL, Tree.WF] at hw
    obtain ⟨⟨hn, has, hks⟩, hts⟩ := hw
    cases fuel with
    | zero => omega
    | succ f =>
      -- the rest of the document behind this element's start tag
      have hS : doc.drop st.cur.off = junk ++ LT :: (declBytes n as ++ GT ::
          (renderKids ks ++ (closePatOf n ++ (renderKids ts ++ (closePatOf pname ++ tail))))) := by
        rw [hd, renderKids_cons_elem]; simp
      have hlen := length_of_drop hS (by omega)
      simp only [List.length_append, List.length_cons] at hlen
      unfold nodeLoop
      simp only [herr, Bool.false_eq_true, if_false]
      rw [memchr_ok (by omega), take_drop_suffix hs]
      simp only [bind, Except.bind, pure, Except.pure]
      rw [hS, idxOf_at hj]
      simp only
      rw [memchr_ok (by omega), take_drop_suffix (by omega)]
      have hS2 : doc.drop (st.cur.off + junk.length) = (LT :: declBytes n as) ++ GT ::
          (renderKids ks ++ (closePatOf n ++ (renderKids ts ++ (closePatOf pname ++ tail)))) := by
        rw [drop_of_drop hS, drop_append_left']; simp
      have hgt : GT ∉ LT :: declBytes n as := by
        simp only [List.mem_cons, not_or]
        exact ⟨by decide, GT_not_mem_decl hn has⟩
      rw [hS2, idxOf_at hgt]
      simp only [List.length_cons]
      -- the byte after '<' is the first byte of the name
      have hnpos : 0 < n.length := List.length_pos_iff.mpr hn.1
      obtain ⟨c, cs, hc⟩ : ∃ c cs, n = c :: cs := by
        cases hcn : n with
        | nil => exact absurd hcn hn.1
        | cons c cs => exact ⟨c, cs, rfl⟩
      have hcs : c ≠ SLASH := (nameByte_ne (hn.2 c (by rw [hc]; simp))).2.2.1
      obtain ⟨hlt, hget⟩ := getElem_of_drop hS2 (i := 1) (b := c) (by simp [declBytes, hc])
      rw [rd_ok hlt]
      simp only [hget, hcs, if_false]
      have hdl : (declBytes n as).length = n.length + (attrsBytes as).length := by simp [declBytes]
      have hadv : advance st.cur (junk.length + ((declBytes n as).length + 1) + 1) =
          ⟨st.cur.off + (junk.length + ((declBytes n as).length + 1) + 1), st.cur.len - (junk.length + ((declBytes n as).length + 1) + 1)⟩ :=
        advance_eq (by omega) (by omega)
      rw [hadv]
      simp only [Nat.add_sub_cancel]
      have hS3 : doc.drop (st.cur.off + junk.length + 1) = declBytes n as ++ GT ::
          (renderKids ks ++ (closePatOf n ++ (renderKids ts ++ (closePatOf pname ++ tail)))) := by
        rw [drop_of_drop hS2 1]; rfl
      obtain ⟨⟨nd, le⟩, hld, hN⟩ := loadNodeDecl_render doc n as hn has (st.cur.off + junk.length + 1) _
        ⟨st.cur.off + (junk.length + ((declBytes n as).length + 1) + 1), st.cur.len - (junk.length + ((declBytes n as).length + 1) + 1)⟩
        st.lastErr hS3
      rw [hld]
      simp only at hN ⊢
      by_cases hcap : as.length ≤ 10
      · simp only [hcap, if_true] at hN
        obtain ⟨hle, node, hnode, hnm, hdab, hemp, hattrs⟩ := hN
        subst hnode
        simp only
        have hcurd : doc.drop (st.cur.off + (junk.length + ((declBytes n as).length + 1) + 1)) =
            renderKids ks ++ (closePatOf n ++ (renderKids ts ++ (closePatOf pname ++ tail))) := by
          rw [show st.cur.off + (junk.length + ((declBytes n as).length + 1) + 1) =
            st.cur.off + junk.length + 1 + ((declBytes n as) ++ [GT]).length by simp; omega]
          rw [drop_of_drop hS3]
          rw [show declBytes n as ++ GT :: (renderKids ks ++ (closePatOf n ++ (renderKids ts ++ (closePatOf pname ++ tail)))) =
            (declBytes n as ++ [GT]) ++ (renderKids ks ++ (closePatOf n ++ (renderKids ts ++ (closePatOf pname ++ tail)))) by simp]
          rw [drop_append_left']
        have hnseg : seg doc node.name.off (node.name.off + node.name.len) = n := by
          rw [hnm]
          have := seg_of_drop hS3 0 n.length
          simp only [Nat.add_zero, List.drop_zero] at this
          rw [this, declBytes, List.append_assoc, take_append_left']
        have hpre : CBPre doc md
            { st with cur := ⟨st.cur.off + (junk.length + ((declBytes n as).length + 1) + 1), st.cur.len - (junk.length + ((declBytes n as).length + 1) + 1)⟩,
                      error := false, lastErr := le }
            node (renderKids ts ++ (closePatOf pname ++ tail)) (.elem n as ks) := by
          refine ⟨hn, hks, by rw [hnm], hnseg, by rw [hnm]; simp only; omega, hdab, hemp, hattrs, hcap, hcurd⟩
        obtain ⟨⟨st2, ok⟩, hcb, hC⟩ := callback_render doc hH prog md (.elem n as ks) f
          { st with cur := ⟨st.cur.off + (junk.length + ((declBytes n as).length + 1) + 1), st.cur.len - (junk.length + ((declBytes n as).length + 1) + 1)⟩,
                    error := false, lastErr := le }
          node (path ++ [idx]) (renderKids ts ++ (closePatOf pname ++ tail)) hpre (by simp only; omega) rfl hmd (by simp only; omega)
        rw [hcb]
        have hC1 := hC.ok; have hC2 := hC.events; have hC3 := hC.after
        simp only at hC1 hC2 hC3 ⊢
        replace hC2 : evs doc st2 = evs doc st ++ (expectNode prog md (path ++ [idx]) st.depth (.elem n as ks)).1 := hC2
        cases hx : (expectNode prog md (path ++ [idx]) st.depth (.elem n as ks)).2 with
        | false =>
          rw [hx] at hC1
          subst hC1
          simp only [Bool.not_false, if_true]
          refine ⟨_, rfl, ⟨?_, ?_, ?_⟩⟩
          · simp [expectKids, hx]
          · simp only [expectKids, hx, Bool.false_eq_true, if_false]
            rw [← hC2]; rfl
          · simp [expectKids, hx]
        | true =>
          rw [hx] at hC1
          subst hC1
          simp only [Bool.not_true, Bool.false_eq_true, if_false]
          have hA := hC3 hx
          have hA1 := hA.cur; have hA2 := hA.depth; have hA3 := hA.error; have hA4 := hA.maxDepth
          simp only [endOf, curAt] at hA1 hA2
          have hlen2 := length_of_drop hcurd (by omega)
          simp only [List.length_append] at hlen2
          obtain ⟨r, hr, hM⟩ := loop_render doc hH prog md ts f st2 path (idx + 1) [] pname tail hts hp (by simp)
            (by rw [hA1]; simp only; omega) hA3 hA4 (by rw [hA1]; simp only; omega)
            (by
              rw [hA1]
              simp only [List.nil_append]
              rw [show st.cur.off + (junk.length + ((declBytes n as).length + 1) + 1) + (renderKids ks).length + (closePatOf n).length =
                st.cur.off + (junk.length + ((declBytes n as).length + 1) + 1) + (renderKids ks ++ closePatOf n).length by
                  simp only [List.length_append]; omega]
              rw [drop_of_drop hcurd, ← List.append_assoc, drop_append_left'])
          refine ⟨r, hr, ⟨?_, ?_, ?_⟩⟩
          · rw [hM.ok, hA2]; simp [expectKids, hx]
          · rw [hM.events, hC2, hA2]; simp [expectKids, hx]
          · intro hx2
            have hx2' : (expectKids prog md path (idx + 1) st.depth ts).2 = true := by simpa [expectKids, hx] using hx2
            rw [← hA2] at hx2'
            have := hM.after hx2'
            refine ⟨?_, by rw [this.depth, hA2], this.error, this.maxDepth⟩
            rw [this.cur, hA1, renderKids_cons_elem]
            simp only [curAt, List.length_nil, Nat.add_zero, List.length_cons, List.length_append]
            congr 1 <;> omega
      · simp only [hcap, if_false, Prod.mk.injEq] at hN
        obtain ⟨rfl, rfl⟩ := hN
        simp only
        have hcap' : as.length > 10 := by omega
        refine ⟨_, rfl, ⟨?_, ?_, ?_⟩⟩
        · simp [expectKids, expectNode, hcap']
        · simp [expectKids, expectNode, hcap', evs]
        · simp [expectKids, expectNode, hcap']
end

end AwsVerif.Xml
