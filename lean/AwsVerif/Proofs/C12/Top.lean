import AwsVerif.Proofs.C12.Events
set_option linter.unusedSimpArgs false
/-! Preamble, root dispatch, and the document-level event theorem. -/
namespace AwsVerif.Xml

/-- what may precede the root element: character data and `<? … >` / `<! … >` statements -/
inductive PreItem where
  | text (b : Bytes)
  | stmt (q : UInt8) (body : Bytes)

def PreItem.render : PreItem → Bytes
  | .text b => b
  | .stmt q body => LT :: q :: (body ++ [GT])

def PreItem.WF : PreItem → Prop
  | .text b => ∀ x ∈ b, textByte x = true
  | .stmt q body => (q = QMARK ∨ q = BANG) ∧ ∀ x ∈ body, textByte x = true

def renderPre : List PreItem → Bytes
  | [] => []
  | i :: is => i.render ++ renderPre is

/-- preamble, root element, arbitrary trailing bytes -/
def renderDoc (pre : List PreItem) (root : Tree) (trailer : Bytes) : Bytes :=
  renderPre pre ++ (root.render ++ trailer)

theorem text_GT_not_mem {b : Bytes} (h : ∀ x ∈ b, textByte x = true) : GT ∉ b := not_mem_of_all h (by decide)

theorem advance_zero (c : Cur) : advance c 0 = c := by
  rcases advance_cases c 0 with h | ⟨_, h⟩
  · exact h
  · rw [h]; cases c; simp

/-- the preamble loop stops at the `<` of the root element -/
theorem preamble_render (doc : Bytes) (hH : doc.length ≤ HALF) (c0 : UInt8) (decl more : Bytes)
    (hc0 : c0 ≠ QMARK ∧ c0 ≠ BANG) (hgt : GT ∉ LT :: c0 :: decl) :
    ∀ (items : List PreItem) (fuel : Nat) (cur : Cur) (junk : Bytes), (∀ i ∈ items, i.WF) → LT ∉ junk →
      cur.off + cur.len = doc.length → cur.len < fuel →
      doc.drop cur.off = junk ++ (renderPre items ++ (LT :: c0 :: (decl ++ GT :: more))) →
      preamble doc fuel cur = .ok (some (curAt doc (cur.off + junk.length + (renderPre items).length))) := by
  intro items
  induction items with
  | nil =>
    intro fuel cur junk _ hj hs hf hd
    cases fuel with
    | zero => omega
    | succ f =>
      simp only [renderPre, List.nil_append, List.length_nil, Nat.add_zero] at hd ⊢
      have hlen := length_of_drop hd (by omega)
      simp only [List.length_append, List.length_cons] at hlen
      unfold preamble
      have h0 : ¬ cur.len = 0 := by omega
      simp only [h0, if_false]
      rw [memchr_ok (by omega), take_drop_suffix hs]
      simp only [bind, Except.bind, pure, Except.pure]
      rw [hd, idxOf_at hj]
      simp only
      have hadv : advance cur junk.length = ⟨cur.off + junk.length, cur.len - junk.length⟩ := advance_eq (by omega) (by omega)
      rw [hadv]
      simp only
      rw [memchr_ok (by omega), take_drop_suffix (by omega)]
      have hS2 : doc.drop (cur.off + junk.length) = (LT :: c0 :: decl) ++ GT :: more := by
        rw [drop_of_drop hd, drop_append_left']; simp
      rw [hS2, idxOf_at hgt]
      simp only
      obtain ⟨hlt, hget⟩ := getElem_of_drop hS2 (i := 1) (b := c0) (by simp)
      rw [rd_ok hlt]
      have hm : Gen.XmlConsts.preambleMarkers.contains c0 = false := by
        cases hc : Gen.XmlConsts.preambleMarkers.contains c0 with
        | false => rfl
        | true => rcases (preambleMarkers_iff c0).mp hc with h | h
                  · exact absurd h hc0.1
                  · exact absurd h hc0.2
      simp only [hget, hm, Bool.false_eq_true, if_false]
      simp only [curAt]
      congr 3; omega
  | cons it items ih =>
    intro fuel cur junk hw hj hs hf hd
    have hwi := hw it List.mem_cons_self
    have hw' : ∀ i ∈ items, i.WF := fun i hi => hw i (List.mem_cons_of_mem _ hi)
    cases it with
    | text b =>
      have hj2 : LT ∉ junk ++ b := by
        simp only [List.mem_append, not_or]; exact ⟨hj, text_LT_not_mem hwi⟩
      have := ih fuel cur (junk ++ b) hw' hj2 hs hf (by rw [hd]; simp [renderPre, PreItem.render])
      rw [this]
      simp only [renderPre, PreItem.render, List.length_append]
      congr 3; omega
    | stmt q body =>
      obtain ⟨hq, hbody⟩ := hwi
      cases fuel with
      | zero => omega
      | succ f =>
        have hS : doc.drop cur.off = junk ++ LT :: (q :: (body ++ GT :: (renderPre items ++ (LT :: c0 :: (decl ++ GT :: more))))) := by
          rw [hd]; simp [renderPre, PreItem.render]
        have hlen := length_of_drop hS (by omega)
        simp only [List.length_append, List.length_cons] at hlen
        unfold preamble
        have h0 : ¬ cur.len = 0 := by omega
        simp only [h0, if_false]
        rw [memchr_ok (by omega), take_drop_suffix hs]
        simp only [bind, Except.bind, pure, Except.pure]
        rw [hS, idxOf_at hj]
        simp only
        have hadv : advance cur junk.length = ⟨cur.off + junk.length, cur.len - junk.length⟩ := advance_eq (by omega) (by omega)
        rw [hadv]
        simp only
        rw [memchr_ok (by omega), take_drop_suffix (by omega)]
        have hS2 : doc.drop (cur.off + junk.length) = (LT :: q :: body) ++ GT :: (renderPre items ++ (LT :: c0 :: (decl ++ GT :: more))) := by
          rw [drop_of_drop hS, drop_append_left']; simp
        have hgt2 : GT ∉ LT :: q :: body := by
          simp only [List.mem_cons, not_or]
          refine ⟨by decide, ?_, text_GT_not_mem hbody⟩
          rcases hq with rfl | rfl <;> decide
        rw [hS2, idxOf_at hgt2]
        simp only [List.length_cons]
        obtain ⟨hlt, hget⟩ := getElem_of_drop hS2 (i := 1) (b := q) (by simp)
        rw [rd_ok hlt]
        have hm : Gen.XmlConsts.preambleMarkers.contains q = true := (preambleMarkers_iff q).mpr hq
        simp only [hget, hm, if_true]
        have hadv2 : advance (⟨cur.off + junk.length, cur.len - junk.length⟩ : Cur) (body.length + 1 + 1 + 1) =
            ⟨cur.off + junk.length + (body.length + 1 + 1 + 1), cur.len - junk.length - (body.length + 1 + 1 + 1)⟩ :=
          advance_eq (by simp only; omega) (by simp only; omega)
        rw [hadv2]
        have hd3 : doc.drop (cur.off + junk.length + (body.length + 1 + 1 + 1)) = [] ++ (renderPre items ++ (LT :: c0 :: (decl ++ GT :: more))) := by
          rw [show body.length + 1 + 1 + 1 = ((LT :: q :: body) ++ [GT]).length by simp]
          rw [drop_of_drop hS2]
          rw [show (LT :: q :: body) ++ GT :: (renderPre items ++ (LT :: c0 :: (decl ++ GT :: more))) =
            ((LT :: q :: body) ++ [GT]) ++ (renderPre items ++ (LT :: c0 :: (decl ++ GT :: more))) by simp]
          rw [drop_append_left']; rfl
        rw [ih f _ [] hw' (by simp) (by simp only; omega) (by simp only; omega) hd3]
        simp only [renderPre, PreItem.render, List.length_append, List.length_cons, List.length_nil, curAt]
        congr 3 <;> omega

theorem render_elem (n : Bytes) (as : List (Bytes × Bytes)) (ks : List Tree) :
    (Tree.elem n as ks).render = LT :: (declBytes n as ++ GT :: (renderKids ks ++ closePatOf n)) := by
  simp [Tree.render, Tree.toks, renderToks, renderToks_append, Tok.render, renderKids, closePatOf]

/-- `s_node_next_sibling` at the root element -/
theorem nodeNextSibling_render (doc : Bytes) (hH : doc.length ≤ HALF) (prog : Prog) (md : Nat) (fuel : Nat) (st : PState)
    (n : Bytes) (as : List (Bytes × Bytes)) (ks : List Tree) (trailer : Bytes)
    (hwf : (Tree.elem n as ks).WF) (hs : st.cur.off + st.cur.len = doc.length) (herr : st.error = false)
    (hmd : st.maxDepth = md) (hf : st.cur.len < fuel)
    (hd : doc.drop st.cur.off = (Tree.elem n as ks).render ++ trailer) :
    Ok (nodeNextSibling doc prog fuel st) (fun r =>
      r.2 = (expectNode prog md [] st.depth (.elem n as ks)).2 ∧
      evs doc r.1 = evs doc st ++ (expectNode prog md [] st.depth (.elem n as ks)).1) := by
  simp only [Tree.WF] at hwf
  obtain ⟨hn, has, hks⟩ := hwf
  have hS : doc.drop st.cur.off = [] ++ LT :: (declBytes n as ++ GT :: (renderKids ks ++ (closePatOf n ++ trailer))) := by
    rw [hd, render_elem]; simp
  have hlen := length_of_drop hS (by omega)
  simp only [List.length_append, List.length_cons, List.length_nil, Nat.zero_add] at hlen
  unfold nodeNextSibling
  rw [memchr_ok (by omega), take_drop_suffix hs]
  simp only [bind, Except.bind, pure, Except.pure]
  rw [hS, idxOf_at (by simp)]
  simp only [List.length_nil, advance_zero]
  rw [memchr_ok (by omega), take_drop_suffix hs]
  have hS2 : doc.drop st.cur.off = (LT :: declBytes n as) ++ GT :: (renderKids ks ++ (closePatOf n ++ trailer)) := by
    rw [hS]; simp
  have hgt : GT ∉ LT :: declBytes n as := by
    simp only [List.mem_cons, not_or]
    exact ⟨by decide, GT_not_mem_decl hn has⟩
  rw [hS2, idxOf_at hgt]
  simp only [List.length_cons]
  have hadv : advance st.cur ((declBytes n as).length + 1 + 1) =
      ⟨st.cur.off + ((declBytes n as).length + 1 + 1), st.cur.len - ((declBytes n as).length + 1 + 1)⟩ :=
    advance_eq (by omega) (by omega)
  rw [hadv]
  simp only [Nat.add_sub_cancel]
  have hS3 : doc.drop (st.cur.off + 1) = declBytes n as ++ GT :: (renderKids ks ++ (closePatOf n ++ trailer)) := by
    rw [drop_of_drop hS2 1]; rfl
  obtain ⟨⟨nd, le⟩, hld, hN⟩ := loadNodeDecl_render doc n as hn has (st.cur.off + 1) _
    ⟨st.cur.off + ((declBytes n as).length + 1 + 1), st.cur.len - ((declBytes n as).length + 1 + 1)⟩ st.lastErr hS3
  rw [hld]
  simp only at hN ⊢
  by_cases hcap : as.length ≤ 10
  · simp only [hcap, if_true] at hN
    obtain ⟨hle, node, hnode, hnm, hdab, hemp, hattrs⟩ := hN
    subst hnode
    simp only
    have hcurd : doc.drop (st.cur.off + ((declBytes n as).length + 1 + 1)) = renderKids ks ++ (closePatOf n ++ trailer) := by
      rw [show st.cur.off + ((declBytes n as).length + 1 + 1) = st.cur.off + 1 + ((declBytes n as) ++ [GT]).length by simp; omega]
      rw [drop_of_drop hS3]
      rw [show declBytes n as ++ GT :: (renderKids ks ++ (closePatOf n ++ trailer)) =
        (declBytes n as ++ [GT]) ++ (renderKids ks ++ (closePatOf n ++ trailer)) by simp]
      rw [drop_append_left']
    have hnseg : seg doc node.name.off (node.name.off + node.name.len) = n := by
      rw [hnm]
      have := seg_of_drop hS3 0 n.length
      simp only [Nat.add_zero, List.drop_zero] at this
      rw [this, declBytes, List.append_assoc, take_append_left']
    have hdl : (declBytes n as).length = n.length + (attrsBytes as).length := by simp [declBytes]
    have hpre : CBPre doc md
        { st with cur := ⟨st.cur.off + ((declBytes n as).length + 1 + 1), st.cur.len - ((declBytes n as).length + 1 + 1)⟩, lastErr := le }
        node trailer (.elem n as ks) := by
      refine ⟨hn, hks, by rw [hnm], hnseg, by rw [hnm]; simp only; omega, hdab, hemp, hattrs, hcap, hcurd⟩
    obtain ⟨⟨st2, ok⟩, hcb, hC⟩ := callback_render doc hH prog md (.elem n as ks) fuel
      { st with cur := ⟨st.cur.off + ((declBytes n as).length + 1 + 1), st.cur.len - ((declBytes n as).length + 1 + 1)⟩, lastErr := le }
      node [] trailer hpre (by simp only; omega) herr hmd (by simp only; omega)
    have hcb' : callbackAndSkip doc prog (traverse doc prog fuel)
        { st with cur := ⟨st.cur.off + ((declBytes n as).length + 1 + 1), st.cur.len - ((declBytes n as).length + 1 + 1)⟩, lastErr := le }
        node [] = .ok (st2, ok) := hcb
    rw [hcb']
    have hC1 := hC.ok; have hC2 := hC.events; have hC3 := hC.after
    simp only at hC1 hC2 hC3 ⊢
    replace hC2 : evs doc st2 = evs doc st ++ (expectNode prog md [] st.depth (.elem n as ks)).1 := hC2
    cases hx : (expectNode prog md [] st.depth (.elem n as ks)).2 with
    | false =>
      rw [hx] at hC1; subst hC1
      simp only [Bool.not_false, if_true]
      exact ⟨_, rfl, rfl, hC2⟩
    | true =>
      rw [hx] at hC1; subst hC1
      simp only [Bool.not_true, Bool.false_eq_true, if_false]
      have hA := hC3 hx
      refine ⟨_, rfl, ?_, hC2⟩
      simp [hA.error]
  · simp only [hcap, if_false, Prod.mk.injEq] at hN
    obtain ⟨rfl, rfl⟩ := hN
    simp only
    have hcap' : as.length > 10 := by omega
    exact ⟨_, rfl, by simp [expectNode, hcap'], by simp [expectNode, hcap', evs]⟩

/-- the events of a whole parse, as bytes -/
def Result.xevents (doc : Bytes) (r : Result) : List XEvent := r.events.map (resolve doc)

/-- `aws_xml_parse` on a rendered document reports exactly the expected events and verdict -/
theorem parse_render (pre : List PreItem) (n : Bytes) (as : List (Bytes × Bytes)) (ks : List Tree) (trailer : Bytes)
    (prog : Prog) (maxDepth : Nat) (hpre : ∀ i ∈ pre, i.WF) (hwf : (Tree.elem n as ks).WF)
    (hH : (renderDoc pre (.elem n as ks) trailer).length ≤ HALF) :
    ∃ r, parse (renderDoc pre (.elem n as ks) trailer) prog maxDepth = .ok r ∧
      r.ok = (expectNode prog (effMaxDepth maxDepth) [] 1 (.elem n as ks)).2 ∧
      r.xevents (renderDoc pre (.elem n as ks) trailer) = (expectNode prog (effMaxDepth maxDepth) [] 1 (.elem n as ks)).1 := by
  have hwf' := hwf
  simp only [Tree.WF] at hwf'
  obtain ⟨hn, has, hks⟩ := hwf'
  obtain ⟨c, cs, hc⟩ : ∃ c cs, n = c :: cs := by
    cases hcn : n with
    | nil => exact absurd hcn hn.1
    | cons c cs => exact ⟨c, cs, rfl⟩
  have hcb := nameByte_ne (hn.2 c (by rw [hc]; simp))
  generalize hdoc : renderDoc pre (.elem n as ks) trailer = doc at hH ⊢
  have hdoc0 : doc.drop 0 = [] ++ (renderPre pre ++ (LT :: c :: ((cs ++ attrsBytes as) ++ GT :: (renderKids ks ++ (closePatOf n ++ trailer))))) := by
    rw [← hdoc, renderDoc, render_elem, declBytes, hc]; simp
  have hgt : GT ∉ LT :: c :: (cs ++ attrsBytes as) := by
    have := GT_not_mem_decl hn has
    rw [declBytes, hc] at this
    simp only [List.mem_cons, not_or]
    exact ⟨by decide, by simpa using this⟩
  unfold parse
  simp only [bind, Except.bind, pure, Except.pure]
  rw [preamble_render doc hH c (cs ++ attrsBytes as) _ ⟨hcb.2.2.2.2.2.2.2.2.2.2, hcb.2.2.2.2.2.2.2.2.2.1⟩ hgt pre (fuelFor doc) ⟨0, doc.length⟩ []
    hpre (by simp) (by simp) (by simp [fuelFor]) hdoc0]
  simp only [List.length_nil, Nat.add_zero, Nat.zero_add]
  have hlen := length_of_drop hdoc0 (by omega)
  simp only [List.length_append, List.length_cons, List.length_nil, Nat.zero_add] at hlen
  have hd : doc.drop (renderPre pre).length = (Tree.elem n as ks).render ++ trailer := by
    have := drop_of_drop hdoc0 (renderPre pre).length
    simp only [Nat.zero_add, List.nil_append] at this
    rw [this, drop_append_left', render_elem, declBytes, hc]; simp
  obtain ⟨⟨st, ok⟩, hns, hr1, hr2⟩ := nodeNextSibling_render doc hH prog (effMaxDepth maxDepth) (fuelFor doc)
    { cur := curAt doc (renderPre pre).length, depth := 1, maxDepth := effMaxDepth maxDepth, error := false, lastErr := .none, events := [] }
    n as ks trailer hwf (by simp only [curAt]; omega) rfl rfl (by simp only [curAt, fuelFor]; omega) hd
  simp only [effMaxDepth] at hns
  rw [hns]
  refine ⟨_, rfl, hr1, ?_⟩
  simp only [Result.xevents]
  simpa [evs] using hr2

end AwsVerif.Xml
