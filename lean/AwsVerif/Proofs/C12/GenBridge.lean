import AwsVerif.Model.Xml
/-!
What the theorems of C12 need of the constants, sizes, capacities, literal sets and guards that
`gen/xml_gen.py` re-derives from /repo's `xml_parser.c` / `xml_parser_impl.h` on every run
(`Gen/XmlConsts.lean`).  Every statement here is a proof obligation about the *current* source: it stops
checking when a limit, an array size, a list capacity, a delimiter or a comparison operator is changed
in a way that breaks the relation the parser's correctness rests on.
-/
namespace AwsVerif.Xml
open AwsVerif.Gen.XmlConsts

-- ---------------------------------------------------------------- static lists of s_load_node_decl
/-- the split list holds the name and 10 attribute pieces -/
theorem SPLIT_CAP_eq : SPLIT_CAP = 11 := by decide
/-- `node->attributes` holds 10 attributes -/
theorem ATTR_CAP_eq : ATTR_CAP = 10 := by decide
/-- `att_val_pair_lst` holds the two pieces of `name=value` -/
theorem PAIR_CAP_eq : PAIR_CAP = 2 := by decide
/-- no list is initialised with a capacity larger than the array behind it (else pushes write past it) -/
theorem list_caps_within_backing :
    splitListCap ≤ splitListBacking ∧ attrListCap ≤ attrListBacking ∧ pairListCap ≤ pairListBacking ∧
    splitListBacking = splitScratchSize ∧ attrListBacking = attributesSize := by decide
/-- every piece behind the name gets a slot in `node->attributes`: no attribute is lost silently -/
theorem every_attr_piece_has_a_slot : attrLoopStart = 1 ∧ SPLIT_CAP - attrLoopStart ≤ ATTR_CAP := by decide
/-- `split_on_char_n(…, n, …)` yields at most n+1 pieces, which the pair list holds; the model's `splitOnCharN1` is n = 1 -/
theorem pair_split_fits : attrSplitN = 1 ∧ attrSplitN + 1 ≤ PAIR_CAP := by decide

-- ---------------------------------------------------------------- compare buffers of s_advance_to_closing_tag
/-- the compare buffers are not created larger than the arrays behind them -/
theorem buffers_within_arrays : openBufCap ≤ nameOpenSize ∧ closeBufCap ≤ nameCloseSize := by decide

/-- the name length test enforces exactly the documented limit of 256 bytes -/
theorem nameTooLong_iff (len : Nat) : nameTooLong (len + closingOverhead) = false ↔ len ≤ MAX_NAME_LEN := by
  unfold nameTooLong nameLimitSize closingOverhead MAX_NAME_LEN
  rw [decide_eq_false_iff_not]
  omega

theorem closingTagCannotFit_iff (a b : Nat) : closingTagCannotFit a b = true ↔ a > b := by
  simp [closingTagCannotFit]

/-- a name that passes the length test fits both compare buffers together with its brackets: `<name`
in `name_open`, `</name>` in `name_close` (none of the ignored `aws_byte_buf_append` results is a failure) -/
theorem patterns_fit {nm : Bytes} (h : nameTooLong (nm.length + closingOverhead) = false) :
    bufAppend openBufCap (bufAppend openBufCap [] [LT]) nm = LT :: nm ∧
    bufAppend closeBufCap (bufAppend closeBufCap (bufAppend closeBufCap (bufAppend closeBufCap [] [LT]) [SLASH]) nm) [GT]
      = LT :: SLASH :: (nm ++ [GT]) := by
  have hl := (nameTooLong_iff nm.length).mp h
  simp only [MAX_NAME_LEN] at hl
  have e1 : bufAppend openBufCap [] [LT] = [LT] := by decide
  have e2 : bufAppend closeBufCap (bufAppend closeBufCap [] [LT]) [SLASH] = [LT, SLASH] := by decide
  constructor
  · rw [e1]
    unfold bufAppend
    have : ¬ (openBufCap - ([LT] : Bytes).length < nm.length) := by simp only [openBufCap, List.length_singleton]; omega
    rw [if_neg this]; rfl
  · rw [e2]
    have h3 : bufAppend closeBufCap [LT, SLASH] nm = LT :: SLASH :: nm := by
      unfold bufAppend
      have : ¬ (closeBufCap - ([LT, SLASH] : Bytes).length < nm.length) := by
        simp only [closeBufCap, List.length_cons, List.length_nil]; omega
      rw [if_neg this]; rfl
    rw [h3]
    unfold bufAppend
    have : ¬ (closeBufCap - (LT :: SLASH :: nm).length < ([GT] : Bytes).length) := by
      simp only [closeBufCap, List.length_cons, List.length_nil]; omega
    rw [if_neg this]; rfl

/-- the pieces of the two patterns and their order, as written in the source -/
theorem pattern_pieces : openPrefix = [LT] ∧ openSuffix = [] ∧ closePrefix = [LT, SLASH] ∧ closeSuffix = [GT] := by decide

-- ---------------------------------------------------------------- literal bytes
theorem literal_bytes : declSplitChar = SPACE ∧ attrSplitChar = EQS ∧ emptyMarker = SLASH ∧ parentCloseMarker = SLASH := by decide

/-- `s_double_quote_fn` is the test the model's trimming uses -/
theorem quote_pred_bridge (n : Nat) : quote_pred n = decide (n = QUOTE.toNat) := by
  unfold quote_pred
  by_cases h : n = 34
  · subst h; decide
  · have h2 : ¬ n = QUOTE.toNat := by simpa [QUOTE] using h
    simp [h, h2]

theorem isNameEnd_iff (b : UInt8) : isNameEnd b = true ↔ b ∈ nameEndBytes := by
  simp [isNameEnd]

/-- the preamble loop burns exactly `<?…>` and `<!…>` -/
theorem preambleMarkers_iff (c : UInt8) : preambleMarkers.contains c = true ↔ (c = QMARK ∨ c = BANG) := by
  simp [preambleMarkers, QMARK, BANG]

-- ---------------------------------------------------------------- guards translated by gen/cfun.py
/-- the depth test of `aws_xml_node_traverse` is `doc_depth >= max_depth`, as in `traverseWith` -/
theorem depth_test_bridge (d m : Nat) : depth_exceeded d m ≠ 0 ↔ d ≥ m := by
  unfold depth_exceeded; split <;> simp_all

/-- the loop of `aws_xml_node_traverse` runs while `parser->error` is 0, as in `nodeLoop` -/
theorem loop_guard_bridge (e : Nat) : loop_continues e ≠ 0 ↔ e = 0 := by
  unfold loop_continues; split <;> simp_all

/-- `options->max_depth ? options->max_depth : s_max_document_depth` with the documented default of 20 -/
theorem effective_max_depth_bridge (m : Nat) : effective_max_depth m = if m = 0 then DEFAULT_MAX_DEPTH else m := by
  unfold effective_max_depth DEFAULT_MAX_DEPTH; split <;> simp_all

-- ---------------------------------------------------------------- guards of the byte-cursor helpers (byte_buf.c)
/-- `aws_byte_cursor_right_trim_pred` loops while the view is non-empty and tests its last byte, as `rightTrim` -/
theorem right_trim_bridge : right_trim_is_loop = true ∧ (∀ n, right_trim_guard n ≠ 0 ↔ 0 < n) ∧
    (∀ n, 0 < n → n < 2^64 → right_trim_index n = n - 1) := by
  refine ⟨rfl, fun n => ?_, fun n h1 h2 => ?_⟩
  · unfold right_trim_guard; split <;> simp_all
  · unfold right_trim_index; omega

/-- `aws_byte_cursor_left_trim_pred` loops while the view is non-empty and tests its first byte, as `leftTrim` -/
theorem left_trim_bridge : left_trim_is_loop = true ∧ (∀ n, left_trim_guard n ≠ 0 ↔ 0 < n) := by
  refine ⟨rfl, fun n => ?_⟩
  unfold left_trim_guard; split <;> simp_all

/-- `aws_byte_cursor_next_split` stops when the next piece would start behind the end of the input (a piece
starting exactly at the end is the empty last piece), as `splitLoop` / `splitOnCharN1` -/
theorem next_split_done_bridge (p e s : Nat) : next_split_done p e s ≠ 0 ↔ (p > e ∨ p < s) := by
  unfold next_split_done; split <;> simp_all

/-- `aws_byte_cursor_split_on_char_n`: n = 0 means unlimited (and that is what `split_on_char` passes), n = 1 means
one split; the loop runs while `count ≤ max` and the piece number `max` takes the rest - as `splitOnChar` (no
limit) and `splitOnCharN1` (second piece = rest) -/
theorem split_n_bridge : split_on_char_n_arg = 0 ∧ split_max 0 = 2^64 - 1 ∧ (∀ n, 0 < n → split_max n = n) ∧
    (∀ c m, split_continue c m ≠ 0 ↔ c ≤ m) ∧ (∀ c m, split_is_last c m ≠ 0 ↔ c = m) := by
  refine ⟨rfl, by decide, fun n h => ?_, fun c m => ?_, fun c m => ?_⟩
  · unfold split_max; simp [h]
  · unfold split_continue; split <;> simp_all
  · unfold split_is_last; split <;> simp_all

/-- `aws_byte_buf_append` is refused exactly when the free space is smaller than the piece, as `bufAppend` -/
theorem append_refused_bridge (cap len n : Nat) (h1 : len ≤ cap) (h2 : cap < 2^64) :
    append_refused cap len n ≠ 0 ↔ cap - len < n := by
  unfold append_refused
  have : (cap + 18446744073709551616 - len) % 18446744073709551616 = cap - len := by omega
  rw [this]; split <;> simp_all

-- ---------------------------------------------------------------- widths and storage of locals (clang AST)
/-- no function-local of xml_parser.c has static storage: all parser state is on the caller's stack, so independent
documents can be parsed on different threads -/
theorem no_static_locals : staticLocals = [] := by decide

/-- no explicit cast to an integer type narrower than 64 bits in the parser's functions -/
theorem no_narrow_casts : narrowCasts = [] := by decide

/-- every integer local of the parser's functions is 64 bits wide (`size_t`), except the byte `name_end` and the
flag `parent_closed`: offsets, lengths and counters are modelled as unbounded `Nat` without wrap-around, which is
sound for documents of at most SIZE_MAX/2 bytes only if none of them is narrower -/
theorem int_locals_wide : ∀ x ∈ intLocals, x.2.2 = 64 ∨ x = ("s_advance_to_closing_tag", "name_end", 8) ∨
    x = ("aws_xml_node_traverse", "parent_closed", 1) := by decide

/-- in particular the same-name nesting counter of `s_advance_to_closing_tag` (not bounded by the depth limit: a
skipped / body-read subtree is scanned whatever its depth) and the tag offsets of the traversal -/
theorem counters_and_offsets_wide :
    ("s_advance_to_closing_tag", "depth_count", 64) ∈ intLocals ∧ ("s_advance_to_closing_tag", "skip_len", 64) ∈ intLocals ∧
    ("s_advance_to_closing_tag", "len", 64) ∈ intLocals ∧ ("aws_xml_node_traverse", "node_name_len", 64) ∈ intLocals ∧
    ("s_node_next_sibling", "node_name_len", 64) ∈ intLocals ∧ HALF + 1 < 2 ^ 64 := by decide

/-- the callback stack is a growing list, so its length is the nesting depth for every `options.max_depth`, as
`PState.depth` in the model (which has no capacity) -/
theorem callback_stack_dynamic : callbackStackDynamic = true := by decide

theorem limits_as_documented : maxDocumentDepth = DEFAULT_MAX_DEPTH ∧ maxNameLen = MAX_NAME_LEN := by decide

end AwsVerif.Xml
