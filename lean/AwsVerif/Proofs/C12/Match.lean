import AwsVerif.Proofs.C12.Scan
set_option linter.unusedSimpArgs false
/-! The closing-tag search of `s_advance_to_closing_tag` on a rendered token stream. -/
namespace AwsVerif.Xml

/-- start tags of exactly this name -/
def countOpen (nm : Bytes) : List Tok → Nat
  | [] => 0
  | .opn n _ :: ts => (if n = nm then 1 else 0) + countOpen nm ts
  | .text _ :: ts => countOpen nm ts
  | .cls _ :: ts => countOpen nm ts

theorem findSpec_ge {doc : Bytes} {cur : Cur} {pat junk rest : Bytes} (hd : doc.drop cur.off = junk ++ rest)
    (hj : Skippable pat junk) {op : Nat} {e : Err} (h : findSpec doc cur pat = (some op, e)) : cur.off + junk.length ≤ op := by
  unfold findSpec at h
  split at h
  · simp at h
  · split at h
    · simp at h
    · rw [hd, hj] at h
      cases hr : firstMatch pat rest with
      | none => simp [hr] at h
      | some k =>
        simp only [hr, Option.map_some, Prod.mk.injEq, Option.some.injEq] at h
        omega

theorem findSpec_here {doc : Bytes} {cur : Cur} {pat junk rest : Bytes} (hs : cur.off + cur.len = doc.length)
    (hd : doc.drop cur.off = junk ++ rest) (hj : Skippable pat junk) (hne : pat ≠ []) (hp : pat <+: rest) :
    findSpec doc cur pat = (some (cur.off + junk.length), .none) := by
  have hlen : (doc.drop cur.off).length = (junk ++ rest).length := by rw [hd]
  simp only [List.length_drop, List.length_append] at hlen
  have hpl := hp.length_le
  have hpos : 0 < pat.length := List.length_pos_iff.mpr hne
  unfold findSpec
  have h1 : ¬ pat.length > cur.len := by omega
  have h2 : ¬ pat.length < 1 := by omega
  simp only [h1, h2, if_false]
  rw [hd, hj, firstMatch_here hne hp]
  simp

theorem getElem?_at_append (a : Bytes) (b : UInt8) (t : Bytes) : (a ++ b :: t)[a.length]? = some b := by
  simp

theorem closeInner_toks (doc : Bytes) (hH : doc.length ≤ HALF) (nm : Bytes) (hnm : NameOk nm) (cp closeLen : Nat)
    (hcl1 : 1 ≤ closeLen) (hcp : cp + closeLen ≤ doc.length) :
    ∀ (pre : List Tok), ToksWF pre → ∀ (fuel : Nat) (cur : Cur) (junk atCp : Bytes) (dc : Nat) (le : Err),
      cur.off + cur.len = doc.length → Skippable (openPatOf nm) junk →
      doc.drop cur.off = junk ++ (renderToks pre ++ atCp) → cur.off + junk.length + (renderToks pre).length = cp →
      cur.len < fuel →
      Ok (closeInner doc (openPatOf nm) cp closeLen fuel cur dc le)
        (fun r => r.1 = ⟨cp + closeLen, doc.length - (cp + closeLen)⟩ ∧ r.2.1 = dc + countOpen nm pre - 1) := by
  intro pre
  induction pre with
  | nil =>
    intro _ fuel cur junk atCp dc le hs hj hd hpos hf
    cases fuel with
    | zero => omega
    | succ f =>
      simp only [renderToks, List.length_nil, Nat.add_zero, List.nil_append] at hd hpos
      unfold closeInner
      have h0 : ¬ cur.len = 0 := by omega
      simp only [h0, if_false]
      rw [findExact_spec doc hH cur _ hs]
      simp only [bind, Except.bind]
      have hfin : advance cur (cp - cur.off + closeLen) = ⟨cp + closeLen, doc.length - (cp + closeLen)⟩ := by
        rw [advance_eq (by omega) (by omega)]
        congr 1 <;> omega
      cases hfs : findSpec doc cur (openPatOf nm) with
      | mk r e =>
        cases r with
        | none => exact ⟨_, rfl, hfin, by simp [countOpen]⟩
        | some op =>
          have hge := findSpec_ge hd hj hfs
          have hlt : ¬ op < cp := by omega
          simp only [hlt, if_false]
          exact ⟨_, rfl, hfin, by simp [countOpen]⟩
  | cons t pre' ih =>
    intro hw fuel cur junk atCp dc le hs hj hd hpos hf
    have hwt := hw t List.mem_cons_self
    have hw' : ToksWF pre' := fun x hx => hw x (List.mem_cons_of_mem _ hx)
    -- the token does not start a match: it joins the junk
    have skip : Skippable (openPatOf nm) t.render → countOpen nm (t :: pre') = countOpen nm pre' →
        Ok (closeInner doc (openPatOf nm) cp closeLen fuel cur dc le)
          (fun r => r.1 = ⟨cp + closeLen, doc.length - (cp + closeLen)⟩ ∧ r.2.1 = dc + countOpen nm (t :: pre') - 1) := by
      intro hsk hc
      rw [hc]
      apply ih hw' fuel cur (junk ++ t.render) atCp dc le hs (skippable_append hj hsk)
      · rw [hd]; simp [renderToks]
      · simp only [renderToks, List.length_append] at hpos ⊢; omega
      · exact hf
    cases t with
    | text b => exact skip (skippable_open_tok hnm hwt (by intro n as h; cases h)) rfl
    | cls n => exact skip (skippable_open_tok hnm hwt (by intro n as h; cases h)) rfl
    | opn n as =>
      by_cases hpre : nm <+: n
      · -- a start tag whose name begins with `nm`: found, examined, stepped over
        cases fuel with
        | zero => omega
        | succ f =>
          obtain ⟨t', ht'⟩ := hpre
          have hlenr : 0 < (Tok.opn n as).render.length := by simp [Tok.render]
          simp only [renderToks, List.length_append] at hpos
          unfold closeInner
          have h0 : ¬ cur.len = 0 := by omega
          simp only [h0, if_false]
          rw [findExact_spec doc hH cur _ hs]
          simp only [bind, Except.bind]
          have hX : renderToks (Tok.opn n as :: pre') ++ atCp =
              LT :: (nm ++ (t' ++ (attrsBytes as ++ GT :: (renderToks pre' ++ atCp)))) := by
            simp [renderToks, Tok.render, declBytes, ← ht']
          have hfs : findSpec doc cur (openPatOf nm) = (some (cur.off + junk.length), .none) := by
            apply findSpec_here hs hd hj (by simp [openPatOf])
            rw [hX, openPatOf]
            simp only [List.cons_prefix_cons, true_and]
            exact List.prefix_append _ _
          rw [hfs]
          have hlt : cur.off + junk.length < cp := by omega
          simp only [hlt, if_true]
          -- the byte after the match
          obtain ⟨d, r, hdr, hd1, hd2⟩ := attrs_head as (renderToks pre' ++ atCp)
          have hbyte : ∃ b tl, (t' ++ (attrsBytes as ++ GT :: (renderToks pre' ++ atCp))) = b :: tl ∧
              isNameEnd b = decide (n = nm) := by
            cases t' with
            | nil =>
              refine ⟨d, r, by simpa using hdr, ?_⟩
              simp only [List.append_nil] at ht'
              simp [hd2, ht']
            | cons x xs =>
              refine ⟨x, _, rfl, ?_⟩
              have hx : nameByte x = true := hwt.1.2 x (by rw [← ht']; simp)
              rw [nameByte_not_nameEnd hx]
              have : n ≠ nm := by
                intro e
                have := congrArg List.length ht'
                rw [e] at this
                simp at this
              simp [this]
          obtain ⟨b, tl, hbt, hbe⟩ := hbyte
          have hS : doc.drop cur.off = (junk ++ LT :: nm) ++ b :: tl := by
            rw [hd, hX, hbt]; simp
          obtain ⟨hlt2, hget⟩ := getElem_of_drop hS (getElem?_at_append _ b tl)
          have hidx : cur.off + junk.length + (openPatOf nm).length = cur.off + (junk ++ LT :: nm).length := by
            simp [openPatOf]; omega
          rw [hidx, rd_ok hlt2]
          simp only [hget, hbe]
          have hadv : advance cur (cur.off + junk.length - cur.off + 1) = ⟨cur.off + junk.length + 1, cur.len - (junk.length + 1)⟩ := by
            rw [advance_eq (by omega) (by omega)]
            congr 1 <;> omega
          rw [hadv]
          have hd' : doc.drop (cur.off + junk.length + 1) = (declBytes n as ++ [GT]) ++ (renderToks pre' ++ atCp) := by
            rw [show cur.off + junk.length + 1 = cur.off + (junk.length + 1) by omega, drop_of_drop hd (junk.length + 1)]
            rw [show junk.length + 1 = (junk ++ [LT]).length by simp]
            rw [show junk ++ (renderToks (Tok.opn n as :: pre') ++ atCp) = (junk ++ [LT]) ++ ((declBytes n as ++ [GT]) ++ (renderToks pre' ++ atCp)) by
              simp [renderToks, Tok.render]]
            rw [drop_append_left']
          have hjunk : Skippable (openPatOf nm) (declBytes n as ++ [GT]) := by
            apply skippable_of_not_mem
            simp only [List.mem_append, List.mem_cons, List.not_mem_nil, or_false, not_or]
            exact ⟨LT_not_mem_decl hwt.1 hwt.2, by decide⟩
          have hrl : (Tok.opn n as).render.length = (declBytes n as ++ [GT]).length + 1 := by simp [Tok.render]
          obtain ⟨res, hres, hr1, hr2⟩ := ih hw' f ⟨cur.off + junk.length + 1, cur.len - (junk.length + 1)⟩
            (declBytes n as ++ [GT]) atCp (if decide (n = nm) = true then dc + 1 else dc) le
            (by simp only; omega) hjunk hd' (by simp only; omega) (by simp only; omega)
          refine ⟨res, hres, hr1, ?_⟩
          rw [hr2]
          simp only [countOpen, decide_eq_true_eq]
          by_cases hnn : n = nm <;> simp [hnn] <;> omega
      · have hc : countOpen nm (Tok.opn n as :: pre') = countOpen nm pre' := by
          have : n ≠ nm := fun e => hpre (e ▸ List.prefix_refl _)
          simp [countOpen, this]
        exact skip (skippable_open_tok hnm hwt (by intro n' as' h; cases h; exact hpre)) hc

-- ---------------------------------------------------------------- the matching closing tag
/-- length of the rendered stream before the closing tag at which a depth counter started at `dc` reaches 0 -/
def matchLen (nm : Bytes) : List Tok → Nat → Option Nat
  | [], _ => none
  | .cls n :: ts, dc =>
    if n = nm then (if dc = 1 then some 0 else (matchLen nm ts (dc - 1)).map (· + (Tok.cls n).render.length))
    else (matchLen nm ts dc).map (· + (Tok.cls n).render.length)
  | .opn n as :: ts, dc => (matchLen nm ts (if n = nm then dc + 1 else dc)).map (· + (Tok.opn n as).render.length)
  | .text b :: ts, dc => (matchLen nm ts dc).map (· + (Tok.text b).render.length)

theorem matchLen_split (nm : Bytes) : ∀ (ts : List Tok) (dc L : Nat), 1 ≤ dc → matchLen nm ts dc = some L →
    ∃ pre post, ts = pre ++ Tok.cls nm :: post ∧ NoClose nm pre ∧
      ((dc + countOpen nm pre = 1 ∧ L = (renderToks pre).length) ∨
       (2 ≤ dc + countOpen nm pre ∧ ∃ L', matchLen nm post (dc + countOpen nm pre - 1) = some L' ∧
          L = (renderToks pre).length + (closePatOf nm).length + L')) := by
  intro ts
  induction ts with
  | nil => intro dc L _ h; simp [matchLen] at h
  | cons t ts ih =>
    intro dc L hdc h
    have step : ∀ (dc' L0 : Nat), 1 ≤ dc' → matchLen nm ts dc' = some L0 → L = L0 + t.render.length →
        t ≠ Tok.cls nm → dc' + countOpen nm ts = dc' + countOpen nm ts → dc + countOpen nm [t] = dc' →
        ∃ pre post, t :: ts = pre ++ Tok.cls nm :: post ∧ NoClose nm pre ∧
          ((dc + countOpen nm pre = 1 ∧ L = (renderToks pre).length) ∨
           (2 ≤ dc + countOpen nm pre ∧ ∃ L', matchLen nm post (dc + countOpen nm pre - 1) = some L' ∧
              L = (renderToks pre).length + (closePatOf nm).length + L')) := by
      intro dc' L0 hdc' hm hL hne _ hcount
      obtain ⟨pre, post, hts, hnc, hcase⟩ := ih dc' L0 hdc' hm
      refine ⟨t :: pre, post, by rw [hts]; rfl, ?_, ?_⟩
      · intro x hx
        simp only [List.mem_cons] at hx
        rcases hx with rfl | hx
        · exact hne
        · exact hnc x hx
      · have hco : dc + countOpen nm (t :: pre) = dc' + countOpen nm pre := by
          rw [← hcount]
          cases t <;> simp [countOpen] <;> omega
        rw [hco]
        simp only [renderToks, List.length_append]
        rcases hcase with ⟨h1, h2⟩ | ⟨h1, L', h2, h3⟩
        · left; exact ⟨h1, by omega⟩
        · right; exact ⟨h1, L', h2, by omega⟩
    cases t with
    | text b =>
      simp only [matchLen] at h
      cases hm : matchLen nm ts dc with
      | none => simp [hm] at h
      | some L0 =>
        simp only [hm, Option.map_some, Option.some.injEq] at h
        exact step dc L0 hdc hm h.symm (by intro e; cases e) rfl (by simp [countOpen])
    | opn n as =>
      simp only [matchLen] at h
      cases hm : matchLen nm ts (if n = nm then dc + 1 else dc) with
      | none => simp [hm] at h
      | some L0 =>
        simp only [hm, Option.map_some, Option.some.injEq] at h
        exact step _ L0 (by split <;> omega) hm h.symm (by intro e; cases e) rfl (by simp only [countOpen]; split <;> omega)
    | cls n =>
      simp only [matchLen] at h
      by_cases hn : n = nm
      · subst hn
        simp only [if_true] at h
        by_cases hd1 : dc = 1
        · simp only [hd1, if_true, Option.some.injEq] at h
          refine ⟨[], ts, rfl, (by intro x hx; cases hx), Or.inl ⟨by simp [countOpen, hd1], by simp [renderToks, ← h]⟩⟩
        · simp only [hd1, if_false] at h
          cases hm : matchLen n ts (dc - 1) with
          | none => simp [hm] at h
          | some L0 =>
            simp only [hm, Option.map_some, Option.some.injEq] at h
            refine ⟨[], ts, rfl, (by intro x hx; cases hx), Or.inr ⟨by simp [countOpen]; omega, L0, by simpa [countOpen] using hm, ?_⟩⟩
            simp only [renderToks, List.length_nil, Nat.zero_add, ← h, Tok.render, closePatOf]
            omega
      · simp only [hn, if_false] at h
        cases hm : matchLen nm ts dc with
        | none => simp [hm] at h
        | some L0 =>
          simp only [hm, Option.map_some, Option.some.injEq] at h
          exact step dc L0 hdc hm h.symm (by intro e; cases e; exact hn rfl) rfl (by simp [countOpen])

theorem closeOuter_toks (doc : Bytes) (hH : doc.length ≤ HALF) (nm : Bytes) (hnm : NameOk nm) :
    ∀ (fuel : Nat) (ts : List Tok) (cur : Cur) (dc : Nat) (le : Err) (tail : Bytes) (L : Nat),
      ToksWF ts → 1 ≤ dc → cur.off + cur.len = doc.length → doc.drop cur.off = renderToks ts ++ tail →
      matchLen nm ts dc = some L → cur.len < fuel →
      Ok (closeOuter doc (openPatOf nm) (closePatOf nm) fuel cur dc le)
        (fun r => r.1 = ⟨cur.off + L + (closePatOf nm).length, doc.length - (cur.off + L + (closePatOf nm).length)⟩ ∧
          r.2.1 = some (cur.off + L)) := by
  intro fuel
  induction fuel with
  | zero => intro _ _ _ _ _ _ _ _ _ _ _ h; omega
  | succ f ih =>
    intro ts cur dc le tail L hw hdc hs hd hm hf
    obtain ⟨pre, post, hts, hnc, hcase⟩ := matchLen_split nm ts dc L hdc hm
    have hwpre : ToksWF pre := fun x hx => hw x (by rw [hts]; exact List.mem_append_left _ hx)
    have hwpost : ToksWF post := fun x hx => hw x (by rw [hts]; exact List.mem_append_right _ (List.mem_cons_of_mem _ hx))
    have hd2 : doc.drop cur.off = renderToks pre ++ (closePatOf nm ++ (renderToks post ++ tail)) := by
      rw [hd, hts, renderToks_append]; simp [renderToks, Tok.render, closePatOf]
    have hlen := length_of_drop hd2 (by omega)
    simp only [List.length_append] at hlen
    unfold closeOuter
    rw [findExact_spec doc hH cur _ hs]
    simp only [bind, Except.bind]
    have hfs : findSpec doc cur (closePatOf nm) = (some (cur.off + (renderToks pre).length), .none) :=
      findSpec_here hs hd2 (skippable_close_toks hnm hwpre hnc) (by simp [closePatOf]) (List.prefix_append _ _)
    rw [hfs]
    simp only
    have hcl1 : 1 ≤ (closePatOf nm).length := by simp [closePatOf]
    obtain ⟨⟨cur', dc', le'⟩, hci, hc1, hc2⟩ := closeInner_toks doc hH nm hnm (cur.off + (renderToks pre).length)
      (closePatOf nm).length hcl1 (by omega) pre hwpre (cur.len + 1) cur [] (closePatOf nm ++ (renderToks post ++ tail)) dc le
      hs (skippable_nil _) (by simpa using hd2) (by simp) (by omega)
    rw [hci]
    simp only at hc1 hc2 ⊢
    subst hc1 hc2
    rcases hcase with ⟨h1, h2⟩ | ⟨h1, L', h2, h3⟩
    · have : ¬ (dc + countOpen nm pre - 1 > 0) := by omega
      simp only [this, if_false]
      subst h2
      exact ⟨_, rfl, rfl, rfl⟩
    · have : dc + countOpen nm pre - 1 > 0 := by omega
      simp only [this, if_true]
      have hd3 : doc.drop (cur.off + (renderToks pre).length + (closePatOf nm).length) = renderToks post ++ tail := by
        rw [show cur.off + (renderToks pre).length + (closePatOf nm).length = cur.off + (renderToks pre ++ closePatOf nm).length by
          simp only [List.length_append]; omega]
        rw [drop_of_drop hd2, ← List.append_assoc, drop_append_left']
      obtain ⟨r, hr, hr1, hr2⟩ := ih post ⟨cur.off + (renderToks pre).length + (closePatOf nm).length,
          doc.length - (cur.off + (renderToks pre).length + (closePatOf nm).length)⟩ (dc + countOpen nm pre - 1) le' tail L'
        hwpost (by omega) (by simp only; omega) hd3 h2 (by simp only; omega)
      refine ⟨r, hr, ?_, ?_⟩
      · rw [hr1]; simp only; congr 1 <;> omega
      · rw [hr2]; simp only; congr 1; omega

end AwsVerif.Xml
