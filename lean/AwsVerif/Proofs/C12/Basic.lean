import AwsVerif.Model.Xml
set_option linter.unusedSimpArgs false
/-! Basic lemmas for the XML model: the `Ok` combinator, checked reads, `idxOf`, `advance`. -/
namespace AwsVerif.Xml

/-- the computation returns a value (no fault) satisfying `P` -/
def Ok {α : Type} (x : Except Fault α) (P : α → Prop) : Prop := ∃ a, x = .ok a ∧ P a

theorem Ok.pure {α} {a : α} {P : α → Prop} (h : P a) : Ok (Pure.pure a : Except Fault α) P := ⟨a, rfl, h⟩
theorem Ok.ok {α} {a : α} {P : α → Prop} (h : P a) : Ok (Except.ok a : Except Fault α) P := ⟨a, rfl, h⟩

theorem Ok.bind {α β} {x : Except Fault α} {f : α → Except Fault β} {P : α → Prop} {Q : β → Prop}
    (hx : Ok x P) (hf : ∀ a, P a → Ok (f a) Q) : Ok (x >>= f) Q := by
  obtain ⟨a, rfl, ha⟩ := hx
  exact hf a ha

theorem Ok.mono {α} {x : Except Fault α} {P Q : α → Prop} (hx : Ok x P) (h : ∀ a, P a → Q a) : Ok x Q := by
  obtain ⟨a, e, ha⟩ := hx; exact ⟨a, e, h a ha⟩

theorem Ok.of_eq {α} {x : Except Fault α} {a : α} {P : α → Prop} (e : x = .ok a) (h : P a) : Ok x P := ⟨a, e, h⟩

-- ---------------------------------------------------------------- idxOf
theorem idxOf_none {c : UInt8} {l : Bytes} : idxOf c l = none ↔ c ∉ l := by
  induction l with
  | nil => simp [idxOf]
  | cons b bs ih =>
    simp only [idxOf, List.mem_cons]
    by_cases h : b = c
    · simp [h]
    · simp only [h, if_false, Option.map_eq_none_iff, ih]
      constructor
      · intro h1 h2; rcases h2 with h2 | h2
        · exact h h2.symm
        · exact h1 h2
      · intro h1 h2; exact h1 (Or.inr h2)

theorem idxOf_some {c : UInt8} {l : Bytes} {k : Nat} (h : idxOf c l = some k) :
    k < l.length ∧ l[k]? = some c ∧ c ∉ l.take k := by
  induction l generalizing k with
  | nil => simp [idxOf] at h
  | cons b bs ih =>
    simp only [idxOf] at h
    by_cases hb : b = c
    · simp [hb] at h; subst h; simp [hb]
    · simp only [hb, if_false, Option.map_eq_some_iff] at h
      obtain ⟨j, hj, rfl⟩ := h
      obtain ⟨h1, h2, h3⟩ := ih hj
      refine ⟨by simp; omega, by simpa using h2, ?_⟩
      simp only [List.take_succ_cons, List.mem_cons, not_or]
      exact ⟨fun e => hb e.symm, h3⟩

/-- splitting at the found index -/
theorem idxOf_split {c : UInt8} {l : Bytes} {k : Nat} (h : idxOf c l = some k) :
    l = l.take k ++ c :: l.drop (k + 1) ∧ c ∉ l.take k := by
  obtain ⟨h1, h2, h3⟩ := idxOf_some h
  refine ⟨?_, h3⟩
  have : l.drop k = c :: l.drop (k+1) := by
    rw [List.drop_eq_getElem_cons h1]
    congr 1
    rw [List.getElem?_eq_getElem h1] at h2
    exact Option.some.inj h2
  conv => lhs; rw [← List.take_append_drop k l, this]

theorem idxOf_append_of_not_mem {c : UInt8} {a b : Bytes} (h : c ∉ a) :
    idxOf c (a ++ b) = (idxOf c b).map (· + a.length) := by
  induction a with
  | nil => simp
  | cons x xs ih =>
    simp only [List.mem_cons, not_or] at h
    have hx : ¬ x = c := fun e => h.1 e.symm
    simp only [List.cons_append, idxOf, hx, if_false, ih h.2, Option.map_map, List.length_cons]
    congr 1

theorem idxOf_cons_self {c : UInt8} {l : Bytes} : idxOf c (c :: l) = some 0 := by simp [idxOf]

theorem idxOf_at {c : UInt8} {a t : Bytes} (h : c ∉ a) : idxOf c (a ++ c :: t) = some a.length := by
  rw [idxOf_append_of_not_mem h, idxOf_cons_self]; simp

-- ---------------------------------------------------------------- reads
theorem rd_ok {doc : Bytes} {i : Nat} (h : i < doc.length) : rd doc i = .ok doc[i] := by
  simp [rd, List.getElem?_eq_getElem h]

theorem memchr_ok {doc : Bytes} {off n : Nat} {c : UInt8} (h : off + n ≤ doc.length) :
    memchr doc off n c = .ok (idxOf c ((doc.drop off).take n)) := by
  simp [memchr, h]

theorem slice_ok {doc : Bytes} {off n : Nat} (h : off + n ≤ doc.length) :
    slice doc off n = .ok ((doc.drop off).take n) := by
  simp [slice, h]

theorem memcmpEq_ok {doc : Bytes} {off : Nat} {pat : Bytes} (h : off + pat.length ≤ doc.length) :
    memcmpEq doc off pat = .ok ((doc.drop off).take pat.length == pat) := by
  simp [memcmpEq, h]

/-- under the suffix invariant the window is the rest of the document -/
theorem take_drop_suffix {doc : Bytes} {off n : Nat} (h : off + n = doc.length) : (doc.drop off).take n = doc.drop off := by
  apply List.take_of_length_le; simp; omega

-- ---------------------------------------------------------------- advance
theorem advance_eq {c : Cur} {n : Nat} (h1 : c.len ≤ HALF) (h2 : n ≤ c.len) : advance c n = ⟨c.off + n, c.len - n⟩ := by
  unfold advance
  have : ¬ (c.len > HALF ∨ n > HALF ∨ n > c.len) := by omega
  simp [this]

theorem advance_cases (c : Cur) (n : Nat) : advance c n = c ∨ (n ≤ c.len ∧ advance c n = ⟨c.off + n, c.len - n⟩) := by
  unfold advance
  by_cases h : c.len > HALF ∨ n > HALF ∨ n > c.len
  · simp [h]
  · simp only [h, if_false]; right; exact ⟨by omega, trivial⟩

end AwsVerif.Xml
