import AwsVerif.Proofs.C12.Basic
import AwsVerif.Proofs.C12.GenBridge
set_option linter.unusedSimpArgs false
/-! `aws_byte_cursor_split_on_char` and `aws_byte_cursor_trim_pred`: exact results. -/
namespace AwsVerif.Xml

/-- bytes `[a, b)` of the document -/
def seg (doc : Bytes) (a b : Nat) : Bytes := (doc.drop a).take (b - a)

theorem seg_length {doc : Bytes} {a b : Nat} (h : b ≤ doc.length) : (seg doc a b).length = b - a := by
  simp [seg]; omega

theorem seg_cons {doc : Bytes} {a b : Nat} (h1 : a < b) (h2 : b ≤ doc.length) :
    seg doc a b = doc[a]'(by omega) :: seg doc (a + 1) b := by
  unfold seg
  rw [List.drop_eq_getElem_cons (by omega)]
  have : b - a = (b - (a + 1)) + 1 := by omega
  rw [this, List.take_succ_cons]

theorem seg_self (doc : Bytes) (a : Nat) : seg doc a a = [] := by simp [seg]

theorem seg_drop {doc : Bytes} {a b k : Nat} : (seg doc a b).drop k = seg doc (a + k) b := by
  unfold seg
  rw [List.drop_take, List.drop_drop]
  congr 1; omega

/-- the pieces of `s` (starting at document offset `st`, current piece has `ln` bytes so far) -/
def splitAux (c : UInt8) : Bytes → Nat → Nat → List Cur
  | [], st, ln => [⟨st, ln⟩]
  | b :: bs, st, ln => if b = c then ⟨st, ln⟩ :: splitAux c bs (st + ln + 1) 0 else splitAux c bs st (ln + 1)

theorem splitAux_ne_nil (c : UInt8) (s : Bytes) (st ln : Nat) : splitAux c s st ln ≠ [] := by
  induction s generalizing st ln with
  | nil => simp [splitAux]
  | cons b bs ih => unfold splitAux; split <;> simp [ih]

theorem splitAux_length_pos (c : UInt8) (s : Bytes) (st ln : Nat) : 0 < (splitAux c s st ln).length :=
  List.length_pos_iff.mpr (splitAux_ne_nil c s st ln)

theorem splitAux_none {c : UInt8} {s : Bytes} (h : c ∉ s) (st ln : Nat) : splitAux c s st ln = [⟨st, ln + s.length⟩] := by
  induction s generalizing ln with
  | nil => simp [splitAux]
  | cons b bs ih =>
    simp only [List.mem_cons, not_or] at h
    have hb : ¬ b = c := fun e => h.1 e.symm
    simp only [splitAux, hb, if_false, ih h.2, List.length_cons]
    congr 2; omega

theorem splitAux_append_not_mem {c : UInt8} {a s : Bytes} (h : c ∉ a) (st ln : Nat) :
    splitAux c (a ++ s) st ln = splitAux c s st (ln + a.length) := by
  induction a generalizing ln with
  | nil => simp
  | cons b bs ih =>
    simp only [List.mem_cons, not_or] at h
    have hb : ¬ b = c := fun e => h.1 e.symm
    simp only [List.cons_append, splitAux, hb, if_false, ih h.2, List.length_cons]
    congr 1; omega

theorem splitAux_some {c : UInt8} {s : Bytes} {k : Nat} (h : idxOf c s = some k) (st ln : Nat) :
    splitAux c s st ln = ⟨st, ln + k⟩ :: splitAux c (s.drop (k + 1)) (st + ln + k + 1) 0 := by
  obtain ⟨hsplit, hnot⟩ := idxOf_split h
  have hk := (idxOf_some h).1
  have hlen : (s.take k).length = k := by simp; omega
  conv => lhs; rw [hsplit, splitAux_append_not_mem hnot]
  simp only [splitAux, if_true, hlen]
  congr 2
  omega

/-- all pieces lie inside `[st, st + ln + |s|]` -/
theorem splitAux_inside (c : UInt8) (s : Bytes) (st ln : Nat) :
    ∀ p ∈ splitAux c s st ln, st ≤ p.off ∧ p.off + p.len ≤ st + ln + s.length := by
  induction s generalizing st ln with
  | nil => simp [splitAux]
  | cons b bs ih =>
    intro p hp
    unfold splitAux at hp
    split at hp
    · simp only [List.mem_cons] at hp
      rcases hp with rfl | hp
      · simp only [List.length_cons]; omega
      · have := ih _ _ p hp; simp only [List.length_cons] at this ⊢; omega
    · have := ih _ _ p hp; simp only [List.length_cons] at this ⊢; omega

def splitSpec (doc : Bytes) (inp : Cur) (c : UInt8) (cap : Nat) : Option (List Cur) :=
  let ps := splitAux c (seg doc inp.off (inp.off + inp.len)) inp.off 0
  if ps.length ≤ cap then some ps else none

theorem splitLoop_spec (doc : Bytes) (inp : Cur) (c : UInt8) (cap : Nat) (hv : inp.off + inp.len ≤ doc.length) :
    ∀ fuel start acc, inp.off ≤ start → start ≤ inp.off + inp.len → inp.off + inp.len - start < fuel →
      splitLoop doc inp c cap fuel start acc =
        .ok (let ps := splitAux c (seg doc start (inp.off + inp.len)) start 0
             if acc.length + ps.length ≤ cap then some (acc ++ ps) else none) := by
  intro fuel
  induction fuel with
  | zero => intro _ _ _ _ h; omega
  | succ f ih =>
    intro start acc h1 h2 h3
    unfold splitLoop
    dsimp only
    rw [memchr_ok (by omega)]
    simp only [bind, Except.bind]
    have hseg : (doc.drop start).take (inp.off + inp.len - start) = seg doc start (inp.off + inp.len) := rfl
    rw [hseg]
    have hpos := splitAux_length_pos c (seg doc start (inp.off + inp.len)) start 0
    by_cases hcap : acc.length ≥ cap
    · have : ¬ (acc.length + (splitAux c (seg doc start (inp.off + inp.len)) start 0).length ≤ cap) := by omega
      simp [hcap, this, pure, Except.pure]
    · simp only [hcap, if_false]
      cases hk : idxOf c (seg doc start (inp.off + inp.len)) with
      | none =>
        have hn := idxOf_none.mp hk
        have hl : (seg doc start (inp.off + inp.len)).length = inp.off + inp.len - start := seg_length hv
        have : start + (inp.off + inp.len - start) + 1 > inp.off + inp.len := by omega
        simp only [this, if_true, splitAux_none hn, hl, pure, Except.pure, List.length_singleton]
        have hc : acc.length + 1 ≤ cap := by omega
        simp [hc]
      | some k =>
        have hkl := (idxOf_some hk).1
        rw [seg_length hv] at hkl
        have : ¬ (start + k + 1 > inp.off + inp.len) := by omega
        simp only [this, if_false]
        rw [ih _ _ (by omega) (by omega) (by omega)]
        rw [splitAux_some hk, seg_drop]
        simp only [List.length_append, List.length_cons, List.length_nil, Nat.zero_add, Nat.add_zero]
        have e1 : start + (k + 1) = start + k + 1 := by omega
        rw [e1]
        by_cases hc : acc.length + 0 + 1 + (splitAux c (seg doc (start + k + 1) (inp.off + inp.len)) (start + k + 1) 0).length ≤ cap
        · have hc' : acc.length + ((splitAux c (seg doc (start + k + 1) (inp.off + inp.len)) (start + k + 1) 0).length + 1) ≤ cap := by omega
          simp [hc, hc']
        · have hc' : ¬ acc.length + ((splitAux c (seg doc (start + k + 1) (inp.off + inp.len)) (start + k + 1) 0).length + 1) ≤ cap := by omega
          simp [hc, hc']

theorem splitOnChar_spec (doc : Bytes) (inp : Cur) (c : UInt8) (cap : Nat) (hv : inp.off + inp.len ≤ doc.length) :
    splitOnChar doc inp c cap = .ok (splitSpec doc inp c cap) := by
  unfold splitOnChar splitSpec
  rw [splitLoop_spec doc inp c cap hv _ _ _ (Nat.le_refl _) (by omega) (by omega)]
  simp

/-- every piece of a successful split lies inside the input view -/
theorem splitSpec_inside {doc : Bytes} {inp : Cur} {c : UInt8} {cap : Nat} {ps : List Cur}
    (hv : inp.off + inp.len ≤ doc.length) (h : splitSpec doc inp c cap = some ps) :
    ps.length ≤ cap ∧ ps ≠ [] ∧ ∀ p ∈ ps, inp.off ≤ p.off ∧ p.off + p.len ≤ inp.off + inp.len := by
  unfold splitSpec at h
  simp only at h
  split at h
  · rename_i hc
    simp only [Option.some.injEq] at h; subst h
    refine ⟨hc, splitAux_ne_nil _ _ _ _, ?_⟩
    intro p hp
    have := splitAux_inside _ _ _ _ p hp
    rw [seg_length hv] at this
    omega
  · simp at h

-- ---------------------------------------------------------------- trims
def leadQ : Bytes → Nat
  | [] => 0
  | b :: bs => if b = QUOTE then leadQ bs + 1 else 0

theorem leadQ_le (s : Bytes) : leadQ s ≤ s.length := by
  induction s with
  | nil => simp [leadQ]
  | cons b bs ih => unfold leadQ; split <;> simp <;> omega

theorem leftTrim_spec (doc : Bytes) : ∀ n off, off + n ≤ doc.length →
    leftTrim doc off n = .ok ⟨off + leadQ (seg doc off (off + n)), n - leadQ (seg doc off (off + n))⟩ := by
  intro n
  induction n with
  | zero => intro off _; simp [leftTrim, seg_self, leadQ]
  | succ n ih =>
    intro off h
    unfold leftTrim
    rw [rd_ok (by omega), seg_cons (by omega) (by omega)]
    simp only [bind, Except.bind, leadQ]
    by_cases hq : doc[off] = QUOTE
    · simp only [hq, if_true]
      rw [ih (off + 1) (by omega)]
      have e : off + 1 + n = off + (n + 1) := by omega
      rw [e]
      congr 2 <;> omega
    · simp [hq]

def trailQ (s : Bytes) : Nat := leadQ s.reverse

theorem trailQ_le (s : Bytes) : trailQ s ≤ s.length := by
  unfold trailQ; have := leadQ_le s.reverse; simpa using this

theorem trailQ_append_single (s : Bytes) (b : UInt8) : trailQ (s ++ [b]) = if b = QUOTE then trailQ s + 1 else 0 := by
  simp [trailQ, leadQ]

theorem seg_snoc {doc : Bytes} {a n : Nat} (h : a + n + 1 ≤ doc.length) :
    seg doc a (a + (n + 1)) = seg doc a (a + n) ++ [doc[a + n]'(by omega)] := by
  unfold seg
  have e1 : a + (n + 1) - a = n + 1 := by omega
  have e2 : a + n - a = n := by omega
  rw [e1, e2, List.take_add_one]
  congr 1
  rw [List.getElem?_drop, List.getElem?_eq_getElem (by omega)]
  rfl

theorem rightTrim_spec (doc : Bytes) : ∀ n off, off + n ≤ doc.length →
    rightTrim doc off n = .ok ⟨off, n - trailQ (seg doc off (off + n))⟩ := by
  intro n
  induction n with
  | zero => intro off _; simp [rightTrim]
  | succ n ih =>
    intro off h
    unfold rightTrim
    rw [rd_ok (by omega), seg_snoc (by omega), trailQ_append_single]
    simp only [bind, Except.bind]
    by_cases hq : doc[off + n] = QUOTE
    · simp only [hq, if_true]
      rw [ih off (by omega)]
      congr 2; omega
    · simp [hq]

def ViewIn (doc : Bytes) : View → Prop
  | none => True
  | some c => c.off + c.len ≤ doc.length

/-- a view inside another view -/
def ViewWithin (lo hi : Nat) : View → Prop
  | none => True
  | some c => lo ≤ c.off ∧ c.off + c.len ≤ hi

theorem trimQuotes_ok (doc : Bytes) (v : View) (lo hi : Nat) (hhi : hi ≤ doc.length) (hv : ViewWithin lo hi v) :
    Ok (trimQuotes doc v) (fun r => ViewWithin lo hi r) := by
  cases v with
  | none => exact ⟨none, rfl, trivial⟩
  | some c =>
    obtain ⟨h1, h2⟩ := hv
    simp only [trimQuotes]
    rw [leftTrim_spec doc c.len c.off (by omega)]
    simp only [bind, Except.bind]
    have hl := leadQ_le (seg doc c.off (c.off + c.len))
    rw [seg_length (by omega)] at hl
    rw [rightTrim_spec doc _ _ (by omega)]
    refine ⟨_, rfl, ?_⟩
    simp only [ViewWithin]
    omega

end AwsVerif.Xml
