import AwsVerif.Proofs.C12.Split
set_option linter.unusedSimpArgs false
/-! `s_load_node_decl`: no fault, views inside the declaration, at most 10 attributes. -/
namespace AwsVerif.Xml

def AttrWithin (lo hi : Nat) (a : Attr) : Prop := ViewWithin lo hi a.name ∧ ViewWithin lo hi a.value

theorem ViewWithin.mono {lo hi lo' hi' : Nat} {v : View} (h : ViewWithin lo hi v) (h1 : lo' ≤ lo) (h2 : hi ≤ hi') :
    ViewWithin lo' hi' v := by
  cases v with
  | none => trivial
  | some c => obtain ⟨a, b⟩ := h; exact ⟨by omega, by omega⟩

theorem splitOnCharN1_ok (doc : Bytes) (inp : Cur) (c : UInt8) (hv : inp.off + inp.len ≤ doc.length) :
    Ok (splitOnCharN1 doc inp c) (fun ps => ∀ p ∈ ps, inp.off ≤ p.off ∧ p.off + p.len ≤ inp.off + inp.len) := by
  unfold splitOnCharN1
  rw [memchr_ok hv]
  simp only [bind, Except.bind, pure, Except.pure]
  cases hk : idxOf c ((doc.drop inp.off).take inp.len) with
  | none =>
    refine ⟨_, rfl, ?_⟩
    intro p hp
    simp only [List.mem_singleton] at hp
    subst hp; exact ⟨Nat.le_refl _, Nat.le_refl _⟩
  | some k =>
    have hk1 := (idxOf_some hk).1
    simp only [List.length_take, List.length_drop] at hk1
    simp only
    rw [memchr_ok (by omega)]
    refine ⟨_, rfl, ?_⟩
    intro p hp
    simp only [List.mem_cons, List.not_mem_nil, or_false] at hp
    rcases hp with rfl | rfl
    · simp only; omega
    · simp only; omega

theorem loadAttr_ok (doc : Bytes) (pair : Cur) (le : Err) (hv : pair.off + pair.len ≤ doc.length) :
    Ok (loadAttr doc pair le) (fun r => ∀ a, r.1 = some a → AttrWithin pair.off (pair.off + pair.len) a) := by
  unfold loadAttr
  obtain ⟨ps, hps, hin⟩ := splitOnCharN1_ok doc pair EQS hv
  rw [hps]
  simp only [bind, Except.bind, pure, Except.pure]
  by_cases hcap : ps.length > PAIR_CAP
  · simp only [hcap, if_true]
    exact ⟨_, rfl, by simp⟩
  simp only [hcap, if_false]
  have hw : ∀ i : Nat, ViewWithin pair.off (pair.off + pair.len) ps[i]? := by
    intro i
    cases hi : ps[i]? with
    | none => trivial
    | some c => exact hin c (List.mem_of_getElem? hi)
  obtain ⟨v, hv', hvw⟩ := trimQuotes_ok doc ps[1]? pair.off (pair.off + pair.len) hv (hw 1)
  rw [hv']
  refine ⟨_, rfl, ?_⟩
  intro a ha
  simp only [pure, Except.pure, Option.some.injEq] at ha
  subst ha
  exact ⟨hw 0, hvw⟩

theorem loadAttrs_ok (doc : Bytes) (lo hi : Nat) (hhi : hi ≤ doc.length) : ∀ (ps : List Cur) (le : Err),
    (∀ p ∈ ps, lo ≤ p.off ∧ p.off + p.len ≤ hi) →
    Ok (loadAttrs doc ps le) (fun r => r.1.length ≤ ps.length ∧ ∀ a ∈ r.1, AttrWithin lo hi a) := by
  intro ps
  induction ps with
  | nil => intro le _; exact ⟨_, rfl, by simp⟩
  | cons p ps ih =>
    intro le h
    unfold loadAttrs
    have hp := h p (List.mem_cons_self)
    obtain ⟨⟨a, le1⟩, ha, hA⟩ := loadAttr_ok doc p le (by omega)
    rw [ha]
    simp only [bind, Except.bind]
    obtain ⟨⟨as, le2⟩, has, hAs⟩ := ih le1 (fun q hq => h q (List.mem_cons_of_mem _ hq))
    rw [has]
    refine ⟨_, rfl, ?_⟩
    simp only [pure, Except.pure]
    cases a with
    | none =>
      simp only at hAs ⊢
      exact ⟨by simp only [List.length_cons]; omega, hAs.2⟩
    | some a =>
      simp only at hAs hA ⊢
      refine ⟨by simp only [List.length_cons]; omega, ?_⟩
      intro x hx
      simp only [List.mem_cons] at hx
      rcases hx with rfl | hx
      · have := hA x rfl
        exact ⟨this.1.mono hp.1 hp.2, this.2.mono hp.1 hp.2⟩
      · exact hAs.2 x hx

/-- what `s_load_node_decl` guarantees about the node it fills in -/
structure NodeIn (doc : Bytes) (decl : Cur) (dab : Cur) (n : Node) : Prop where
  name : decl.off ≤ n.name.off ∧ n.name.off + n.name.len ≤ decl.off + decl.len
  attrs : ∀ a ∈ n.attrs, AttrWithin decl.off (decl.off + decl.len) a
  nattrs : n.attrs.length ≤ 10
  dab : n.docAtBody = dab

theorem loadNodeDecl_ok (doc : Bytes) (decl dab : Cur) (le : Err)
    (h1 : 1 ≤ decl.off + decl.len) (h2 : decl.off + decl.len ≤ doc.length) :
    Ok (loadNodeDecl doc decl dab le) (fun r => ∀ n, r.1 = some n → NodeIn doc decl dab n) := by
  unfold loadNodeDecl
  have he : ¬ (decl.off + decl.len = 0) := by omega
  simp only [he, if_false]
  rw [rd_ok (by omega)]
  simp only [bind, Except.bind, pure, Except.pure]
  rw [splitOnChar_spec doc decl SPACE SPLIT_CAP h2]
  simp only
  cases hs : splitSpec doc decl SPACE SPLIT_CAP with
  | none => exact ⟨_, rfl, by simp⟩
  | some ps =>
    obtain ⟨hcap, hne, hin⟩ := splitSpec_inside h2 hs
    cases ps with
    | nil => exact absurd rfl hne
    | cons nm rest =>
      simp only
      obtain ⟨⟨as, le2⟩, has, hAs⟩ := loadAttrs_ok doc decl.off (decl.off + decl.len) h2 rest le
        (fun q hq => hin q (List.mem_cons_of_mem _ hq))
      rw [has]
      refine ⟨_, rfl, ?_⟩
      intro n hn
      simp only [Option.some.injEq] at hn
      subst hn
      simp only [List.length_cons, SPLIT_CAP_eq] at hcap
      refine ⟨hin nm List.mem_cons_self, ?_, ?_, rfl⟩
      · intro a ha; exact hAs.2 a (List.mem_of_mem_take ha)
      · simp only at hAs ⊢
        have := List.length_take_le ATTR_CAP as
        have := ATTR_CAP_eq
        omega

end AwsVerif.Xml
