import AwsVerif.Proofs.C12.Safety
set_option linter.unusedSimpArgs false
/-! The dialect: element trees, their rendering, and the event list the property demands. -/
namespace AwsVerif.Xml

/-- an element tree; `text` leaves carry character data -/
inductive Tree where
  | text (b : Bytes)
  | elem (name : Bytes) (attrs : List (Bytes × Bytes)) (kids : List Tree)

/-- tokens of a rendered document -/
inductive Tok where
  | text (b : Bytes)
  | opn (name : Bytes) (attrs : List (Bytes × Bytes))
  | cls (name : Bytes)

/-- ` name="value"` -/
def attrBytes (a : Bytes × Bytes) : Bytes := SPACE :: (a.1 ++ EQS :: QUOTE :: (a.2 ++ [QUOTE]))

def attrsBytes : List (Bytes × Bytes) → Bytes
  | [] => []
  | a :: as => attrBytes a ++ attrsBytes as

/-- what stands between `<` and `>` in a start tag -/
def declBytes (name : Bytes) (attrs : List (Bytes × Bytes)) : Bytes := name ++ attrsBytes attrs

def Tok.render : Tok → Bytes
  | .text b => b
  | .opn n as => LT :: (declBytes n as ++ [GT])
  | .cls n => LT :: SLASH :: (n ++ [GT])

def renderToks : List Tok → Bytes
  | [] => []
  | t :: ts => t.render ++ renderToks ts

mutual
def Tree.toks : Tree → List Tok
  | .text b => [.text b]
  | .elem n as ks => .opn n as :: (toksL ks ++ [.cls n])
def toksL : List Tree → List Tok
  | [] => []
  | t :: ts => t.toks ++ toksL ts
end

/-- `<name a="v" …>` children `</name>` -/
def Tree.render (t : Tree) : Bytes := renderToks t.toks
/-- the text between an element's start and end tag -/
def renderKids (ks : List Tree) : Bytes := renderToks (toksL ks)

-- ---------------------------------------------------------------- the dialect's character classes
/-- bytes allowed in element and attribute names -/
def nameByte (b : UInt8) : Bool :=
  !(b = LT || b = GT || b = SLASH || b = SPACE || b = EQS || b = QUOTE || b = 9 || b = 10 || b = 13 || b = BANG || b = QMARK)
/-- bytes allowed in attribute values: no space, no markup, no quote (`=` is allowed: the parser splits
a `name="value"` piece at its first `=` only) -/
def valueByte (b : UInt8) : Bool := !(b = LT || b = GT || b = SPACE || b = QUOTE)
/-- bytes allowed in character data -/
def textByte (b : UInt8) : Bool := !(b = LT || b = GT)

def NameOk (n : Bytes) : Prop := n ≠ [] ∧ ∀ b ∈ n, nameByte b = true
def AttrOk (a : Bytes × Bytes) : Prop := NameOk a.1 ∧ ∀ b ∈ a.2, valueByte b = true

mutual
/-- well-formed in the dialect (no limit on depth, name length or attribute count here) -/
def Tree.WF : Tree → Prop
  | .text b => ∀ x ∈ b, textByte x = true
  | .elem n as ks => NameOk n ∧ (∀ a ∈ as, AttrOk a) ∧ WFL ks
def WFL : List Tree → Prop
  | [] => True
  | t :: ts => t.WF ∧ WFL ts
end

-- ---------------------------------------------------------------- expected events
/-- an event as the property describes it: bytes, not views -/
structure XEvent where
  path : List Nat
  depth : Nat
  name : Bytes
  attrs : List (Bytes × Bytes)
  body : Option Bytes
deriving DecidableEq, Repr

mutual
/-- events of the traversal of one element under `prog`, and whether the run is still successful.
The parser's limits are the points of rejection: more than 10 attributes (before the event), a
descent at depth ≥ `md`, a skip / body read of an element whose name exceeds 256 bytes, an abort. -/
def expectNode (prog : Prog) (md : Nat) (path : List Nat) (depth : Nat) : Tree → List XEvent × Bool
  | .text _ => ([], true)
  | .elem n as ks =>
    if as.length > 10 then ([], false) else
    let ev : XEvent := ⟨path, depth, n, as, none⟩
    match prog path with
    | .abort => ([ev], false)
    | .skip => ([ev], decide (n.length ≤ MAX_NAME_LEN))
    | .body => if n.length ≤ MAX_NAME_LEN then ([{ ev with body := some (renderKids ks) }], true) else ([ev], false)
    | .descend =>
      if depth ≥ md then ([ev], false) else
      let r := expectKids prog md path 0 (depth + 1) ks
      (ev :: r.1, r.2)
def expectKids (prog : Prog) (md : Nat) (path : List Nat) (idx : Nat) (depth : Nat) : List Tree → List XEvent × Bool
  | [] => ([], true)
  | .text _ :: ts => expectKids prog md path idx depth ts
  | .elem n as ks :: ts =>
    let r := expectNode prog md (path ++ [idx]) depth (.elem n as ks)
    if r.2 then
      let r2 := expectKids prog md path (idx + 1) depth ts
      (r.1 ++ r2.1, r2.2)
    else (r.1, false)
end

/-- the model's event with its views resolved to bytes -/
def resolve (doc : Bytes) (e : Event) : XEvent :=
  { path := e.path, depth := e.depth, name := viewBytes doc (some e.name),
    attrs := e.attrs.map (fun a => (viewBytes doc a.name, viewBytes doc a.value)),
    body := e.body.map (viewBytes doc) }

end AwsVerif.Xml
