import AwsVerif.Proofs.C12.Close
set_option linter.unusedSimpArgs false
/-! The traversal: no fault, enough fuel, views inside, limits.  One invariant, by induction on the fuel. -/
namespace AwsVerif.Xml

/-- facts about a reported event that hold in every run (successful or not) -/
structure EvGood (doc : Bytes) (md : Nat) (e : Event) : Prop where
  name : e.name.off + e.name.len ≤ doc.length
  attrs : ∀ a ∈ e.attrs, ViewIn doc a.name ∧ ViewIn doc a.value
  body : ∀ b, e.body = some b → ViewIn doc b
  nattrs : e.attrs.length ≤ 10
  depth : e.depth ≤ md
  depthPath : e.depth = e.path.length + 1

/-- facts about an event that hold once the callback that saw it has returned success -/
structure EvSucc (doc : Bytes) (md : Nat) (e : Event) : Prop where
  notAbort : e.action ≠ .abort
  descend : e.action = .descend → e.depth < md
  closed : (e.action = .skip ∨ e.action = .body) → e.isEmpty = false →
    e.name.len ≤ MAX_NAME_LEN ∧ ∃ p, e.closeAt = some p ∧
      closePatOf (seg doc e.name.off (e.name.off + e.name.len)) <+: doc.drop p ∧
      (e.action = .body → ∃ o, e.body = some (some ⟨o, p - o⟩) ∧ o ≤ p)

structure Good (doc : Bytes) (md : Nat) (st : PState) : Prop where
  suffix : st.cur.off + st.cur.len = doc.length
  hmd : st.maxDepth = md
  evs : ∀ e ∈ st.events, EvGood doc md e

/-- postcondition shared by the callback, `aws_xml_node_traverse` and its loop; `pre` is what is known
of the events already reported when the call starts -/
structure PostG (doc : Bytes) (md : Nat) (pre : Event → Prop) (st : PState) (r : PState × Bool) : Prop where
  good : Good doc md r.1
  mono : st.cur.off ≤ r.1.cur.off
  succ : r.2 = true → (∀ e ∈ st.events, pre e) → ∀ e ∈ r.1.events, EvSucc doc md e
  depth : r.2 = true → r.1.depth = st.depth

abbrev Post (doc : Bytes) (md : Nat) := PostG doc md (EvSucc doc md)

/-- for `aws_xml_node_traverse`: the event of the node being descended into is still pending -/
abbrev TravPost (doc : Bytes) (md : Nat) (st : PState) :=
  PostG doc md (fun e => EvSucc doc md e ∨ (e.action = .descend ∧ e.depth = st.depth)) st

theorem ViewWithin.viewIn {doc : Bytes} {lo hi : Nat} {v : View} (h : ViewWithin lo hi v) (hh : hi ≤ doc.length) : ViewIn doc v := by
  cases v with
  | none => trivial
  | some c => obtain ⟨_, b⟩ := h; simp only [ViewIn]; omega

/-- the spec of `aws_xml_node_traverse` that the callback needs -/
def TravSpec (doc : Bytes) (md : Nat) (trav : PState → List Nat → Except Fault (PState × Bool)) (bound : Nat) : Prop :=
  ∀ st path, Good doc md st → st.cur.len < bound → st.depth = path.length + 1 → st.depth ≤ md →
    Ok (trav st path) (TravPost doc md st)

theorem callbackAndSkip_ok (doc : Bytes) (hH : doc.length ≤ HALF) (md : Nat) (prog : Prog)
    (trav : PState → List Nat → Except Fault (PState × Bool)) (bound : Nat) (htrav : TravSpec doc md trav bound)
    (st : PState) (node : Node) (path : List Nat) (decl : Cur)
    (hg : Good doc md st) (hb : st.cur.len < bound) (hdp : st.depth = path.length + 1) (hdm : st.depth ≤ md)
    (hdecl : decl.off + decl.len ≤ doc.length) (hn : NodeIn doc decl st.cur node) :
    Ok (callbackAndSkip doc prog trav st node path) (Post doc md st) := by
  unfold callbackAndSkip
  have hname : node.name.off + node.name.len ≤ doc.length := by have := hn.name; omega
  have hev : EvGood doc md (mkEvent path st node (prog path)) := by
    refine ⟨hname, ?_, by simp [mkEvent], hn.nattrs, hdm, by simp [mkEvent, hdp]⟩
    intro a ha
    have := hn.attrs a ha
    exact ⟨this.1.viewIn hdecl, this.2.viewIn hdecl⟩
  have hg1 : Good doc md { st with events := mkEvent path st node (prog path) :: st.events } := by
    refine ⟨hg.suffix, hg.hmd, ?_⟩
    intro e he
    simp only [List.mem_cons] at he
    rcases he with rfl | he
    · exact hev
    · exact hg.evs e he
  simp only [bind, Except.bind, pure, Except.pure]
  cases hact : prog path with
  | abort =>
    simp only
    refine ⟨_, rfl, ⟨⟨hg.suffix, hg.hmd, ?_⟩, Nat.le_refl _, by intro h; simp at h, by intro h; simp at h⟩⟩
    intro e he
    simp only [PState.raise, hact] at he hg1
    exact hg1.evs e he
  | descend =>
    simp only
    rw [hact] at hg1
    obtain ⟨r, hr, hP⟩ := htrav { st with events := mkEvent path st node .descend :: st.events } path hg1 hb hdp hdm
    refine ⟨r, hr, ⟨hP.good, hP.mono, ?_, hP.depth⟩⟩
    intro hok hall
    apply hP.succ hok
    intro e he
    simp only [List.mem_cons] at he
    rcases he with rfl | he
    · right; simp [mkEvent]
    · left; exact hall e he
  | body =>
    simp only
    rw [hact] at hg1 hev
    have hdab : node.docAtBody.off + node.docAtBody.len ≤ doc.length := by rw [hn.dab]; have := hg.suffix; omega
    obtain ⟨⟨st2, ok, b, cp⟩, hadv, hA⟩ := advanceToClosingTag_ok doc hH
      { st with events := mkEvent path st node .body :: st.events } node hg.suffix hname hdab
    rw [hadv]
    have hA1 := hA.suffix; have hA2 := hA.mono; have hA3 := hA.depth; have hA4 := hA.maxDepth
    have hA5 := hA.events; have hA6 := hA.body; have hA7 := hA.succ
    simp only at hA1 hA2 hA3 hA4 hA5 hA6 hA7 ⊢
    cases ok with
    | false =>
      simp only [Bool.false_eq_true, if_false]
      refine ⟨_, rfl, ⟨⟨hA1, by rw [hA4]; exact hg.hmd, by rw [hA5]; exact hg1.evs⟩, hA2, by intro h; simp at h, by intro h; simp at h⟩⟩
    | true =>
      simp only [if_true]
      rw [hA5]
      simp only [setBody]
      refine ⟨_, rfl, ⟨⟨hA1, by rw [hA4]; exact hg.hmd, ?_⟩, hA2, ?_, by intro _; exact hA3⟩⟩
      · intro e he
        simp only [List.mem_cons] at he
        rcases he with rfl | he
        · exact ⟨hev.name, hev.attrs, by intro b' hb'; simp only [Option.some.injEq] at hb'; subst hb'; exact hA6,
            hev.nattrs, hev.depth, hev.depthPath⟩
        · exact hg.evs e he
      · intro _ hall e he
        simp only [List.mem_cons] at he
        rcases he with rfl | he
        · refine ⟨by simp [mkEvent], by intro h; simp [mkEvent] at h, ?_⟩
          intro _ hemp
          simp only [mkEvent] at hemp
          obtain ⟨h1, p, hp1, hp2, hp3, hp4⟩ := hA7 rfl hemp
          refine ⟨h1, p, hp1, hp3, ?_⟩
          intro _
          refine ⟨node.docAtBody.off, by rw [hp4], ?_⟩
          rw [hn.dab]; exact hp2
        · exact hall e he
  | skip =>
    simp only
    rw [hact] at hg1 hev
    have hdab : node.docAtBody.off + node.docAtBody.len ≤ doc.length := by rw [hn.dab]; have := hg.suffix; omega
    obtain ⟨⟨st2, ok, b, cp⟩, hadv, hA⟩ := advanceToClosingTag_ok doc hH
      { st with events := mkEvent path st node .skip :: st.events } node hg.suffix hname hdab
    rw [hadv]
    have hA1 := hA.suffix; have hA2 := hA.mono; have hA3 := hA.depth; have hA4 := hA.maxDepth
    have hA5 := hA.events; have hA7 := hA.succ
    simp only at hA1 hA2 hA3 hA4 hA5 hA7 ⊢
    cases ok with
    | false =>
      simp only [Bool.false_eq_true, if_false]
      refine ⟨_, rfl, ⟨⟨hA1, by rw [hA4]; exact hg.hmd, by rw [hA5]; exact hg1.evs⟩, hA2, by intro h; simp at h, by intro h; simp at h⟩⟩
    | true =>
      simp only [if_true]
      rw [hA5]
      simp only [setClose]
      refine ⟨_, rfl, ⟨⟨hA1, by rw [hA4]; exact hg.hmd, ?_⟩, hA2, ?_, by intro _; exact hA3⟩⟩
      · intro e he
        simp only [List.mem_cons] at he
        rcases he with rfl | he
        · exact ⟨hev.name, hev.attrs, hev.body, hev.nattrs, hev.depth, hev.depthPath⟩
        · exact hg.evs e he
      · intro _ hall e he
        simp only [List.mem_cons] at he
        rcases he with rfl | he
        · refine ⟨by simp [mkEvent], by intro h; simp [mkEvent] at h, ?_⟩
          intro _ hemp
          simp only [mkEvent] at hemp
          obtain ⟨h1, p, hp1, hp2, hp3, hp4⟩ := hA7 rfl hemp
          refine ⟨h1, p, hp1, hp3, ?_⟩
          intro h; simp [mkEvent] at h
        · exact hall e he

/-- postcondition of the child loop of `aws_xml_node_traverse` (it pops the callback stack on success) -/
structure LoopPost (doc : Bytes) (md : Nat) (st : PState) (r : PState × Bool) : Prop where
  good : Good doc md r.1
  mono : st.cur.off ≤ r.1.cur.off
  succ : r.2 = true → (∀ e ∈ st.events, EvSucc doc md e) → ∀ e ∈ r.1.events, EvSucc doc md e
  depth : r.2 = true → r.1.depth + 1 = st.depth

def LoopSpec (doc : Bytes) (md : Nat) (loop : PState → List Nat → Nat → Except Fault (PState × Bool)) (bound : Nat) : Prop :=
  ∀ st path idx, Good doc md st → st.cur.len < bound → st.depth = path.length + 2 → st.depth ≤ md →
    Ok (loop st path idx) (LoopPost doc md st)

theorem traverseWith_ok (doc : Bytes) (md : Nat) (loop : PState → List Nat → Nat → Except Fault (PState × Bool))
    (bound : Nat) (hl : LoopSpec doc md loop bound) : TravSpec doc md (traverseWith loop) bound := by
  intro st path hg hb hdp hdm
  unfold traverseWith
  by_cases hd : st.depth ≥ st.maxDepth
  · simp only [hd, if_true]
    exact ⟨_, rfl, ⟨⟨hg.suffix, hg.hmd, hg.evs⟩, Nat.le_refl _, by intro h; simp at h, by intro h; simp at h⟩⟩
  · simp only [hd, if_false]
    have hlt : st.depth < md := by have := hg.hmd; omega
    obtain ⟨r, hr, hP⟩ := hl { st with depth := st.depth + 1 } path 0 ⟨hg.suffix, hg.hmd, hg.evs⟩ hb
      (by simp only; omega) (by simp only; omega)
    refine ⟨r, hr, ⟨hP.good, hP.mono, ?_, ?_⟩⟩
    · intro hok hall
      apply hP.succ hok
      intro e he
      rcases hall e he with h | ⟨h1, h2⟩
      · exact h
      · exact ⟨by rw [h1]; simp, by intro _; omega, by intro h; rw [h1] at h; simp at h⟩
    · intro hok
      have := hP.depth hok
      simp only at this
      omega

theorem LT_ne_GT : LT ≠ GT := by decide

theorem nodeLoop_ok (doc : Bytes) (hH : doc.length ≤ HALF) (md : Nat) (prog : Prog) :
    ∀ fuel, LoopSpec doc md (nodeLoop doc prog fuel) fuel := by
  intro fuel
  induction fuel with
  | zero => intro st _ _ _ h; omega
  | succ f ih =>
    intro st path idx hg hb hdp hdm
    have htrav := traverseWith_ok doc md _ f ih
    unfold nodeLoop
    have hs := hg.suffix
    by_cases herr : st.error = true
    · simp only [herr, if_true]
      exact ⟨_, rfl, ⟨⟨hg.suffix, hg.hmd, hg.evs⟩, Nat.le_refl _, by intro h; simp at h, by intro h; simp at h⟩⟩
    · simp only [herr, Bool.false_eq_true, if_false]
      rw [memchr_ok (by omega), take_drop_suffix hs]
      simp only [bind, Except.bind, pure, Except.pure]
      cases hk : idxOf LT (doc.drop st.cur.off) with
      | none =>
        exact ⟨_, rfl, ⟨⟨hg.suffix, hg.hmd, hg.evs⟩, Nat.le_refl _, by intro h; simp at h, by intro h; simp at h⟩⟩
      | some k =>
        obtain ⟨hk1, hk2, _⟩ := idxOf_some hk
        simp only [List.length_drop] at hk1
        simp only
        rw [memchr_ok (by omega), take_drop_suffix (by omega)]
        cases hj : idxOf GT (doc.drop (st.cur.off + k)) with
        | none =>
          exact ⟨_, rfl, ⟨⟨hg.suffix, hg.hmd, hg.evs⟩, Nat.le_refl _, by intro h; simp at h, by intro h; simp at h⟩⟩
        | some j =>
          obtain ⟨hj1, hj2, _⟩ := idxOf_some hj
          simp only [List.length_drop] at hj1
          have hj0 : j ≠ 0 := by
            intro h0
            subst h0
            rw [List.getElem?_drop] at hk2 hj2
            simp only [Nat.add_zero] at hj2
            rw [hk2] at hj2
            exact LT_ne_GT (Option.some.inj hj2)
          simp only
          rw [rd_ok (by omega)]
          simp only
          have hadv : advance st.cur (k + j + 1) = ⟨st.cur.off + (k + j + 1), st.cur.len - (k + j + 1)⟩ :=
            advance_eq (by omega) (by omega)
          rw [hadv]
          by_cases hpc : doc[st.cur.off + k + 1]'(by omega) = SLASH
          · simp only [hpc, if_true]
            refine ⟨_, rfl, ⟨⟨by simp only; omega, hg.hmd, hg.evs⟩, by simp only; omega, ?_, ?_⟩⟩
            · intro _ hall; exact hall
            · intro _; simp only; omega
          · simp only [hpc, if_false]
            obtain ⟨⟨n, le⟩, hld, hN⟩ := loadNodeDecl_ok doc ⟨st.cur.off + k + 1, j - 1⟩
              ⟨st.cur.off + (k + j + 1), st.cur.len - (k + j + 1)⟩ st.lastErr (by simp only; omega) (by simp only; omega)
            rw [hld]
            simp only
            cases n with
            | none =>
              simp only
              refine ⟨_, rfl, ⟨⟨by simp only; omega, hg.hmd, hg.evs⟩, by simp only; omega, by intro h; simp at h, by intro h; simp at h⟩⟩
            | some node =>
              simp only
              have hg1 : Good doc md { st with cur := ⟨st.cur.off + (k + j + 1), st.cur.len - (k + j + 1)⟩, error := false, lastErr := le } :=
                ⟨by simp only; omega, hg.hmd, hg.evs⟩
              obtain ⟨⟨st2, ok⟩, hcb, hC⟩ := callbackAndSkip_ok doc hH md prog _ f htrav
                { st with cur := ⟨st.cur.off + (k + j + 1), st.cur.len - (k + j + 1)⟩, error := false, lastErr := le } node (path ++ [idx])
                ⟨st.cur.off + k + 1, j - 1⟩ hg1 (by simp only; omega) (by simp only [List.length_append, List.length_singleton]; omega) hdm
                (by simp only; omega) (hN node rfl)
              rw [hcb]
              simp only
              have hC1 := hC.good; have hC2 := hC.mono; have hC3 := hC.succ; have hC4 := hC.depth
              simp only at hC1 hC2 hC3 hC4
              cases ok with
              | false =>
                simp only [Bool.not_false, if_true]
                refine ⟨_, rfl, ⟨⟨hC1.suffix, hC1.hmd, hC1.evs⟩, by simp only; omega, by intro h; simp at h, by intro h; simp at h⟩⟩
              | true =>
                simp only [Bool.not_true, Bool.false_eq_true, if_false]
                have hd2 := hC4 rfl
                have hs2 := hC1.suffix
                obtain ⟨r, hr, hL⟩ := ih st2 path (idx + 1) hC1 (by omega) (by omega) (by omega)
                refine ⟨r, hr, ⟨hL.good, by have := hL.mono; omega, ?_, ?_⟩⟩
                · intro hok hall
                  exact hL.succ hok (hC3 rfl hall)
                · intro hok
                  have := hL.depth hok
                  omega

theorem nodeNextSibling_ok (doc : Bytes) (hH : doc.length ≤ HALF) (md : Nat) (prog : Prog) (fuel : Nat) (st : PState)
    (hg : Good doc md st) (hb : st.cur.len < fuel) (hd : st.depth = 1) (hmd : 1 ≤ md) :
    Ok (nodeNextSibling doc prog fuel st) (fun r => Good doc md r.1 ∧
      (r.2 = true → (∀ e ∈ st.events, EvSucc doc md e) → ∀ e ∈ r.1.events, EvSucc doc md e)) := by
  unfold nodeNextSibling
  have hs := hg.suffix
  rw [memchr_ok (by omega), take_drop_suffix hs]
  simp only [bind, Except.bind, pure, Except.pure]
  cases hk : idxOf LT (doc.drop st.cur.off) with
  | none => exact ⟨_, rfl, hg, by intro _ h; exact h⟩
  | some k =>
    obtain ⟨hk1, hk2, _⟩ := idxOf_some hk
    simp only [List.length_drop] at hk1
    simp only
    have hadv : advance st.cur k = ⟨st.cur.off + k, st.cur.len - k⟩ := advance_eq (by omega) (by omega)
    rw [hadv]
    simp only
    rw [memchr_ok (by omega), take_drop_suffix (by omega)]
    cases hj : idxOf GT (doc.drop (st.cur.off + k)) with
    | none => exact ⟨_, rfl, ⟨by simp only [PState.raise]; omega, hg.hmd, hg.evs⟩, by intro h; simp at h⟩
    | some j =>
      obtain ⟨hj1, hj2, _⟩ := idxOf_some hj
      simp only [List.length_drop] at hj1
      have hj0 : j ≠ 0 := by
        intro h0
        subst h0
        rw [List.getElem?_drop] at hk2 hj2
        simp only [Nat.add_zero] at hj2
        rw [hk2] at hj2
        exact LT_ne_GT (Option.some.inj hj2)
      simp only
      have hadv2 : advance (⟨st.cur.off + k, st.cur.len - k⟩ : Cur) (j + 1) = ⟨st.cur.off + k + (j + 1), st.cur.len - k - (j + 1)⟩ :=
        advance_eq (by simp only; omega) (by simp only; omega)
      rw [hadv2]
      obtain ⟨⟨n, le⟩, hld, hN⟩ := loadNodeDecl_ok doc ⟨st.cur.off + k + 1, j - 1⟩
        ⟨st.cur.off + k + (j + 1), st.cur.len - k - (j + 1)⟩ st.lastErr (by simp only; omega) (by simp only; omega)
      rw [hld]
      simp only
      cases n with
      | none => exact ⟨_, rfl, ⟨by simp only; omega, hg.hmd, hg.evs⟩, by intro h; simp at h⟩
      | some node =>
        simp only
        have hg1 : Good doc md { st with cur := ⟨st.cur.off + k + (j + 1), st.cur.len - k - (j + 1)⟩, lastErr := le } :=
          ⟨by simp only; omega, hg.hmd, hg.evs⟩
        have htrav : TravSpec doc md (traverse doc prog fuel) fuel :=
          traverseWith_ok doc md _ fuel (nodeLoop_ok doc hH md prog fuel)
        obtain ⟨⟨st2, ok⟩, hcb, hC⟩ := callbackAndSkip_ok doc hH md prog _ fuel htrav
          { st with cur := ⟨st.cur.off + k + (j + 1), st.cur.len - k - (j + 1)⟩, lastErr := le } node []
          ⟨st.cur.off + k + 1, j - 1⟩ hg1 (by simp only; omega) (by simp only [List.length_nil]; omega) (by simp only; omega)
          (by simp only; omega) (hN node rfl)
        rw [hcb]
        simp only
        have hC1 := hC.good; have hC3 := hC.succ
        simp only at hC1 hC3
        cases ok with
        | false => exact ⟨_, rfl, hC1, by intro h; simp at h⟩
        | true =>
          simp only [Bool.not_true, Bool.false_eq_true, if_false]
          exact ⟨_, rfl, hC1, by intro _ hall; exact hC3 rfl hall⟩

theorem preamble_ok (doc : Bytes) (hH : doc.length ≤ HALF) : ∀ fuel (cur : Cur), cur.off + cur.len = doc.length → cur.len < fuel →
    Ok (preamble doc fuel cur) (fun r => ∀ c, r = some c → c.off + c.len = doc.length) := by
  intro fuel
  induction fuel with
  | zero => intro _ _ h; omega
  | succ f ih =>
    intro cur hs hb
    unfold preamble
    by_cases h0 : cur.len = 0
    · simp only [h0, if_true]
      exact ⟨_, rfl, by intro c hc; simp only [Option.some.injEq] at hc; subst hc; exact hs⟩
    · simp only [h0, if_false]
      rw [memchr_ok (by omega), take_drop_suffix hs]
      simp only [bind, Except.bind, pure, Except.pure]
      cases hk : idxOf LT (doc.drop cur.off) with
      | none => exact ⟨_, rfl, by simp⟩
      | some k =>
        obtain ⟨hk1, hk2, _⟩ := idxOf_some hk
        simp only [List.length_drop] at hk1
        simp only
        have hadv : advance cur k = ⟨cur.off + k, cur.len - k⟩ := advance_eq (by omega) (by omega)
        rw [hadv]
        simp only
        rw [memchr_ok (by omega), take_drop_suffix (by omega)]
        cases hj : idxOf GT (doc.drop (cur.off + k)) with
        | none => exact ⟨_, rfl, by simp⟩
        | some j =>
          obtain ⟨hj1, hj2, _⟩ := idxOf_some hj
          simp only [List.length_drop] at hj1
          have hj0 : j ≠ 0 := by
            intro h0
            subst h0
            rw [List.getElem?_drop] at hk2 hj2
            simp only [Nat.add_zero] at hj2
            rw [hk2] at hj2
            exact LT_ne_GT (Option.some.inj hj2)
          simp only
          rw [rd_ok (by omega)]
          simp only
          split
          · have hadv2 : advance (⟨cur.off + k, cur.len - k⟩ : Cur) (j + 1) = ⟨cur.off + k + (j + 1), cur.len - k - (j + 1)⟩ :=
              advance_eq (by simp only; omega) (by simp only; omega)
            rw [hadv2]
            exact ih _ (by simp only; omega) (by simp only; omega)
          · exact ⟨_, rfl, by intro c hc; simp only [Option.some.injEq] at hc; subst hc; simp only; omega⟩

/-- `options.max_depth ? options.max_depth : s_max_document_depth` -/
def effMaxDepth (maxDepth : Nat) : Nat := if maxDepth = 0 then DEFAULT_MAX_DEPTH else maxDepth

theorem effMaxDepth_pos (m : Nat) : 1 ≤ effMaxDepth m := by
  unfold effMaxDepth DEFAULT_MAX_DEPTH; split <;> omega

theorem parse_ok (doc : Bytes) (hH : doc.length ≤ HALF) (prog : Prog) (maxDepth : Nat) :
    Ok (parse doc prog maxDepth) (fun r => (∀ e ∈ r.events, EvGood doc (effMaxDepth maxDepth) e) ∧
      (r.ok = true → ∀ e ∈ r.events, EvSucc doc (effMaxDepth maxDepth) e)) := by
  unfold parse
  obtain ⟨c, hc, hC⟩ := preamble_ok doc hH (fuelFor doc) ⟨0, doc.length⟩ (by simp) (by simp [fuelFor])
  simp only [bind, Except.bind, pure, Except.pure]
  rw [hc]
  simp only
  cases c with
  | none => exact ⟨_, rfl, by simp, by simp⟩
  | some cur =>
    simp only
    have hs := hC cur rfl
    obtain ⟨⟨st, ok⟩, hn, hG, hS⟩ := nodeNextSibling_ok doc hH (effMaxDepth maxDepth) prog (fuelFor doc)
      { cur := cur, depth := 1, maxDepth := effMaxDepth maxDepth, error := false, lastErr := .none, events := [] }
      ⟨hs, rfl, by simp⟩ (by simp only [fuelFor]; omega) rfl (effMaxDepth_pos _)
    simp only [effMaxDepth] at hn
    rw [hn]
    refine ⟨_, rfl, ?_, ?_⟩
    · intro e he
      simp only [List.mem_reverse] at he
      exact hG.evs e he
    · intro hok e he
      simp only [List.mem_reverse] at he
      simp only at hok
      exact hS hok (by simp) e he

end AwsVerif.Xml
