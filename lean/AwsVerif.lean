import AwsVerif.Props.C15
import AwsVerif.Props.C16
