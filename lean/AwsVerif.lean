import AwsVerif.Props.C15
