import Driver.Util
import AwsVerif.Model.Log
/-! Drivers for C14: `logline` (formatter, gate, pipeline, no-alloc logger — same op language as
harness/logline.c) and `logbg` (replays the synchronisation events of a run of the background channel
under harness/detsched.c on the transition system `Log.Bg`). -/
namespace Driver.LogD
open AwsVerif.Log AwsVerif.Gen.Log Driver

/-- message text of harness/logline.c: pat(len)[i] = '0' + (7 i + len) mod 75 -/
def pattern (len : Nat) : Bytes := (List.range len).map (fun i => UInt8.ofNat (48 + (i * 7 + len) % 75))

/-- expansion of the harness's format/argument shapes -/
def msgOf (len shape : Nat) : Bytes :=
  if shape = 4 ∧ len ≠ 0 then List.replicate (len - 1) 48 ++ [55] else pattern len

structure St where
  env : Option (Bytes × List Bytes) := none      -- tid, [ts0, ts1, ts2]
  a : Option Pipe := none
  b : Option Pipe := none
  n : Option Nat := none                          -- no-alloc logger: its level
  adf : Nat := 1                                  -- date format of pipeline a's formatter
  bdf : Nat := 1
  c : Option Nat := none                          -- pipeline whose formatter reports success without a line: its level
  slots : Slots := fun _ => none                  -- registered log-subject lists (names per package slot)
  wfail : List Nat := []                          -- ordinals (since case start) of recording-writer calls that fail
  wcalls : Nat := 0                               -- recording-writer calls so far

def errName : Err → String
  | .invalidArgument => "AWS_ERROR_INVALID_ARGUMENT"
  | .unknown => "AWS_ERROR_UNKNOWN"
  | .opErr => "ERR"
  | .oob _ _ _ => "OOB"

def tsOf (tss : List Bytes) (dateFormat : Nat) : Bytes := (tss[dateFormat]?).getD []

def lineOut (l : Bytes) : String := s!"P line {hexOf l}"

def parseSubject? (s : String) : Option (Option Bytes) :=
  if s == "null" then some none else (parseHex? s).map some

def stepFmt (tid : Bytes) (tss : List Bytes) (total level : Nat) (subject : Option Bytes) (msgLen dateFormat shape : Nat) : List String :=
  let d : FmtData := { total := total, level := level, subject := subject, msg := msgOf msgLen shape,
                       ts := tsOf tss dateFormat, tid := tid }
  -- the harness buffer: `total` bytes of 0xCD
  match formatLine (List.replicate total 0xCD) d with
  | .ok (buf, aw) =>
    [s!"P fmt rc=OK amount={aw} nul={if buf[aw]? = some 0 then 1 else 0}", lineOut (buf.take aw), "P canary ok"]
  | .error (.oob _ _ _) => ["P fmt rc=OOB", "P canary BROKEN"]
  | .error e => [s!"P fmt rc={errName e}", "P canary ok"]

def step (s : St) (t : List String) : St × List String :=
  match t with
  | ["env", _secs, tid, t0, t1, t2] =>
    match parseHex? tid, parseHex? t0, parseHex? t1, parseHex? t2 with
    | some tid, some t0, some t1, some t2 =>
      ({ s with env := some (tid, [t0, t1, t2]) }, [s!"W env tid={hexOf tid} ts0={hexOf t0} ts1={hexOf t1} ts2={hexOf t2}"])
    | _, _, _, _ => (s, ["bad-op"])
  | _ =>
  match s.env with
  | none => (s, ["bad-op"])
  | some (tid, tss) =>
  match t with
  | ["fmt", total, level, subject, msgLen, dateFormat, shape] =>
    match parseSize? total, level.toNat?, parseSubject? subject, parseSize? msgLen, dateFormat.toNat?, shape.toNat? with
    | some total, some level, some subject, some msgLen, some df, some shape =>
      (s, stepFmt tid tss total level subject msgLen df shape)
    | _, _, _, _, _, _ => (s, ["bad-op"])
  | ["initfail", k] =>
    -- init of the standard logger / no-alloc logger / file writer on a file name that cannot be opened: error, nothing kept
    if k == "s" || k == "n" || k == "w" then (s, ["P initfail rc=ERR live=0 fds=0"]) else (s, ["bad-op"])
  | ["init", w, level, df] =>
    match level.toNat?, df.toNat? with
    | some level, some df =>
      if df > 2 then (s, ["bad-op"])
      else if w == "a" then (if s.a.isSome then (s, ["bad-op"]) else ({ s with adf := df, a := some { level := level, chan := .foreground, written := [], destroyed := [] } }, []))
      else if w == "b" then (if s.b.isSome then (s, ["bad-op"]) else ({ s with bdf := df, b := some { level := level, chan := .failing, written := [], destroyed := [] } }, []))
      else (s, ["bad-op"])
    | _, _ => (s, ["bad-op"])
  | ["init", w, level] =>
    match level.toNat? with
    | none => (s, ["bad-op"])
    | some level =>
      if w == "a" then (if s.a.isSome then (s, ["bad-op"]) else ({ s with a := some { level := level, chan := .foreground, written := [], destroyed := [] } }, []))
      else if w == "b" then (if s.b.isSome then (s, ["bad-op"]) else ({ s with b := some { level := level, chan := .failing, written := [], destroyed := [] } }, []))
      else if w == "n" then (if s.n.isSome then (s, ["bad-op"]) else ({ s with n := some level }, []))
      else if w == "c" then (if s.c.isSome then (s, ["bad-op"]) else ({ s with c := some level }, []))
      else (s, ["bad-op"])
  | ["setlevel", w, level] =>
    match level.toNat? with
    | none => (s, ["bad-op"])
    | some level =>
      if w == "a" then (match s.a with | some p => ({ s with a := some (setLevel p level) }, ["P setlevel OK"]) | none => (s, ["bad-op"]))
      else if w == "b" then (match s.b with | some p => ({ s with b := some (setLevel p level) }, ["P setlevel OK"]) | none => (s, ["bad-op"]))
      else if w == "n" then (match s.n with | some _ => ({ s with n := some level }, ["P setlevel OK"]) | none => (s, ["bad-op"]))
      else if w == "c" then (match s.c with | some _ => ({ s with c := some level }, ["P setlevel OK"]) | none => (s, ["bad-op"]))
      else (s, ["bad-op"])
  | "subjects" :: slot :: names =>
    -- a name token `NULL` is an entry whose subject_name pointer is NULL
    match slot.toNat?, names.mapM (fun n => if n == "NULL" then some none else (parseHex? n).map some) with
    | some slot, some names =>
      if names.isEmpty ∨ slot ≥ AWS_PACKAGE_SLOTS then (s, ["bad-op"]) else
      ({ s with slots := registerSubjects s.slots (slot * 2 ^ AWS_LOG_SUBJECT_STRIDE_BITS) names },
       [s!"W subjects slot={slot} count={names.length}"])
    | _, _ => (s, ["bad-op"])
  | ["unsubjects", slot] =>
    match slot.toNat? with
    | some slot =>
      if slot = 0 ∨ slot ≥ AWS_PACKAGE_SLOTS then (s, ["bad-op"]) else
      ({ s with slots := fun i => if i = slot then none else s.slots i }, [s!"W unsubjects slot={slot}"])
    | none => (s, ["bad-op"])
  | ["nologger", level, _msgLen] =>
    -- no logger installed: AWS_LOGF talks to the null logger (level NONE, log does nothing)
    match level.toNat? with
    | some _ => (s, ["P nologger lines=0 level=0"])
    | none => (s, ["bad-op"])
  | ["strlevel", text] =>
    match parseHex? text with
    | some t => (s, [match stringToLevel t with
                     | some l => s!"P strlevel rc=OK level={l}"
                     | none => "P strlevel rc=AWS_ERROR_INVALID_ARGUMENT"])
    | none => (s, ["bad-op"])
  | ["levelname", level] =>
    match level.toNat? with
    | some l => (s, [match levelToString l with
                     | some n => s!"P levelname rc=OK {hexOf n}"
                     | none => "P levelname rc=AWS_ERROR_INVALID_ARGUMENT"])
    | none => (s, ["bad-op"])
  | ["writerinit", k] =>
    -- aws_log_writer_init_file: exactly one of file name / open FILE must be given
    if k == "1" || k == "2" then (s, ["P writerinit rc=OK fds=0"])
    else if k == "0" || k == "3" then (s, ["P writerinit rc=AWS_ERROR_INVALID_ARGUMENT fds=0"])
    else (s, ["bad-op"])
  | ["filelog", kind, k, level] =>
    -- two logger lifetimes on one file name: the file writer appends ("a+"), the no-alloc logger truncates ("w")
    match k.toNat?, level.toNat?, subjectName s.slots 0 with
    | some k, some level, some (some subject) =>
      let line (r j : Nat) : Option Bytes :=
        let msg := msgOf (3 + j + 5 * r) 0
        if kind == "w" then (defaultFormat level subject msg (tsOf tss 1) tid).toOption
        else (noallocFormat (List.replicate MAXIMUM_NO_ALLOC_LOG_LINE_SIZE 0xAA) level subject msg (tsOf tss 1) tid).toOption
      let rounds := if kind == "w" then [0, 1] else [1]
      let ls := rounds.flatMap (fun r => (List.range k).filterMap (line r))
      if kind != "w" && kind != "n" then (s, ["bad-op"]) else
      (s, s!"P filelog lines={ls.length} fds=0" :: ls.map lineOut)
    | _, _, _ => (s, ["bad-op"])
  | "wfail" :: ks =>
    match ks.mapM (fun k => if k == "-" then some none else k.toNat?.map some) with
    | some l => ({ s with wfail := l.filterMap id }, [])
    | none => (s, ["bad-op"])
  | ["pipe", w, level, sid, _expected, msgLen, shape, how] =>
    match level.toNat?, (parseSize? sid).bind (subjectName s.slots), parseSize? msgLen, shape.toNat? with
    | some level, some subject, some msgLen, some shape =>
      if how != "macro" && how != "cond" then (s, ["bad-op"]) else
      let c : Call := { level := level, subject := subject.getD [], subjectNull := subject.isNone, msg := msgOf msgLen shape,
                        ts := tsOf tss (if w == "a" then s.adf else if w == "b" then s.bdf else 1), tid := tid,
                        writeOk := !(s.wfail.contains s.wcalls) }
      let go (p : Pipe) : Pipe × List String :=
        let p' := logf p c
        let newLines := p'.written.drop p.written.length
        -- lines created by the call minus lines released before it returns
        let created : Int := if gate p.level level then (match callFormat c with | .ok _ => 1 | .error _ => 0) else 0
        let live : Int := created - ((p'.destroyed.length : Int) - (p.destroyed.length : Int))
        (p', s!"P log lines={newLines.length} live={live} werr={p'.writeErrors - p.writeErrors}" :: newLines.map lineOut)
      if w == "a" then (match s.a with
        | some p => let (p', o) := go p; ({ s with a := some p', wcalls := s.wcalls + (p'.written.length - p.written.length) }, o)
        | none => (s, ["bad-op"]))
      else if w == "b" then (match s.b with | some p => let (p', o) := go p; ({ s with b := some p' }, o) | none => (s, ["bad-op"]))
      else if w == "c" then (match s.c with
        -- the formatter says success but hands back no line: s_aws_logger_pipeline_log returns an error, nothing is sent
        | some _ => (s, ["P log lines=0 live=0 werr=0"])
        | none => (s, ["bad-op"]))
      else (s, ["bad-op"])
    | _, _, _, _ => (s, ["bad-op"])
  | ["noalloc", level, sid, _expected, msgLen, shape, how] =>
    match level.toNat?, (parseSize? sid).bind (subjectName s.slots), parseSize? msgLen, shape.toNat?, s.n with
    | some level, some subject, some msgLen, some shape, some cur =>
      if how != "macro" && how != "cond" then (s, ["bad-op"]) else
      if gate cur level then
        match (match subject with
               | some sj => noallocFormat (List.replicate MAXIMUM_NO_ALLOC_LOG_LINE_SIZE 0xAA) level sj (msgOf msgLen shape) (tsOf tss 1) tid
               | none => noallocFormatNull (List.replicate MAXIMUM_NO_ALLOC_LOG_LINE_SIZE 0xAA) level (msgOf msgLen shape) (tsOf tss 1) tid) with
        | .ok line => (s, ["P log lines=1 live=0 werr=0", lineOut line])
        | .error _ => (s, ["P log lines=0 live=0 werr=0"])
      else (s, ["P log lines=0 live=0 werr=0"])
    | _, _, _, _, _ => (s, ["bad-op"])
  | _ => (s, ["bad-op"])

def component : Component := { σ := St, init := {}, step := step }

/-! ### `logbg`: replay of a detsched event log on `Log.Bg`

Ops (one per scheduler event of the implementation run; roles are assigned by the plug-in from the
thread ordinals: `k` = the thread calling clean-up, `c` = the background thread, `s<i>` = sender i):
  `ev s<i> send | lock | signal | unlock`, `ev c lock | wait | wake | unlock | write | destroy | exit`,
  `ev c spurious`, `ev k clean | lock | signal | unlock | join`.
One implementation event stands for the model steps between two schedule points (detsched: effect of
the posted operation, then thread-local code up to the next wrapped call).  Each model step must be
enabled; otherwise `W not-enabled` is printed and the state is left alone. -/

open AwsVerif.Log.Bg in
def doSteps (s : Sys) (as : List Act) : Option Sys := runActs s as

open AwsVerif.Log.Bg in
def showLine (l : Line) : String := s!"s{l.1} {l.2}"

open AwsVerif.Log.Bg in
def bgStep (s : Sys) (t : List String) : Sys × List String :=
  let fail := (s, [s!"W not-enabled {" ".intercalate t}"])
  let go (as : List Act) (out : Sys → List String := fun _ => []) : Sys × List String :=
    match doSteps s as with
    | some s' => (s', out s')
    | none => fail
  match t with
  | ["ev", "c", kind] =>
    match kind with
    | "lock" => if s.cons = .lock then go [.consumer] else fail
    | "wait" => if s.cons = .pred then (match doSteps s [.consumer] with
                  | some s' => if s'.cons = .waiting then (s', []) else fail
                  | none => fail) else fail
    | "wake" => if s.cons = .woken then go [.consumer] else fail
    | "spurious" => go [.spurious]
    | "unlock" =>
      -- after lock/wake: predicate true, read, (swap), unlock
      if s.cons = .pred then (match doSteps s [.consumer] with
        | some s1 => if s1.cons = .read then (match doSteps s1 [.consumer, .consumer] with
            | some s' => (s', [])
            | none => fail) else fail
        | none => fail) else fail
    | "write" => if s.cons = .write then go [.consumer] (fun s' => match s'.cons with
        | .destroy l => [s!"P write {showLine l}"]
        | _ => ["W write-of-nothing"]) else fail
    | "destroy" => (match s.cons with
        | .destroy l => go [.consumer] (fun _ => [s!"P destroy {showLine l}"])
        | _ => fail)
    | "exit" => if s.cons = .exiting then go [.consumer] else fail
    | _ => (s, ["bad-op"])
  | ["ev", "k", kind] =>
    match kind with
    | "clean" => go [.startClean]
    | "lock" => if s.clean = .lock then go [.cleaner, .cleaner] else fail
    | "signal" => if s.clean = .notify then go [.cleaner] else fail
    | "unlock" => if s.clean = .unlock then go [.cleaner] else fail
    | "join" => if s.clean = .join then go [.cleaner] (fun s' => [s!"P cleanup-returned written={s'.written.length} destroyed={s'.destroyed.length} pending={s'.pending.length + s'.batch.length}"]) else fail
    | _ => (s, ["bad-op"])
  | ["ev", who, kind] =>
    if who.startsWith "s" then
      match (who.drop 1).toString.toNat? with
      | none => (s, ["bad-op"])
      | some i =>
        match kind, s.senders i with
        | "send", .idle => go [.startSend i]
        | "lock", .lock _ => go [.sender i, .sender i]
        | "signal", .notify _ => go [.sender i]
        | "unlock", .unlock _ => go [.sender i]
        | "returned", .idle =>
          -- the send call is back in the caller (observed by the harness some schedule points after the unlock)
          (match (s.completed.filter (fun l => l.1 = i)).getLast? with
           | some l => (s, [s!"P sent {showLine l}"])
           | none => fail)
        | "returned", _ => fail
        | "send", _ => fail
        | "lock", _ => fail
        | "signal", _ => fail
        | "unlock", _ => fail
        | _, _ => (s, ["bad-op"])
    else (s, ["bad-op"])
  | ["quiescent"] =>
    -- no thread inside an operation: report what a waiting consumer has left undone (lost wake-up check)
    (s, [s!"W quiescent pending={s.pending.length + s.batch.length} written={s.written.length}"])
  | _ => (s, ["bad-op"])

def bgComponent : Component := { σ := AwsVerif.Log.Bg.Sys, init := AwsVerif.Log.Bg.Sys.init, step := bgStep }

end Driver.LogD
