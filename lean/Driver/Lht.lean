import Driver.Util
import AwsVerif.Model.Lht
import AwsVerif.Model.LhtImpl
/-! Driver for the linked hash table / cache model (C18).  Op language:
`init <lht|fifo|lifo|lru> <max> <keyDtor 0|1> <valDtor 0|1> <hashmode>`, `put <ident> <ptr> <val>`,
`find <ident>`, `findmv <ident>`, `remove <ident>`, `clear`, `mvend <ident>`, `uselru`, `getmru`. -/
namespace Driver.LhtD
open AwsVerif.Lht Driver

def showEv : Ev → String
  | .key k => s!"k{k.ident}.{k.ptr}"
  | .val v => s!"v{v}"

def joinOrDash (l : List String) : String := if l.isEmpty then "-" else " ".intercalate l

def showState (c : Cache) : List String :=
  [s!"P count={c.table.count}",
   "P order " ++ joinOrDash (c.table.entries.map (fun e => s!"{e.1.ident}.{e.1.ptr}={e.2}"))]

/-- value 0 is the NULL value pointer: a lookup that finds it reports NULL, like a miss -/
def showVal : Option Nat → String
  | none => "NULL"
  | some 0 => "NULL"
  | some v => toString v

def sortStrs (l : List String) : List String := l.mergeSort (fun a b => !(b < a))

/-- destructor lines: `P` the multiset (sorted), `W` the call sequence (not for clear: hash-slot order) -/
def showEvs (evs : List Ev) (seq : Bool) : List String :=
  let ss := evs.map showEv
  ["P dtor " ++ joinOrDash (sortStrs ss)] ++ (if seq then ["W dtorseq " ++ joinOrDash ss] else [])

def parsePolicy? : String → Option Policy
  | "lht" => some .none
  | "fifo" => some .fifo
  | "lifo" => some .lifo
  | "lru" => some .lru
  | _ => none

def parseBool? : String → Option Bool
  | "0" => some false
  | "1" => some true
  | _ => none

def isCache (c : Cache) : Bool := c.policy != .none

def step (s : Option Cache) (t : List String) : Option Cache × List String :=
  match s, t with
  | _, ["init", p, m, kd, vd, hm] =>
    match parsePolicy? p, parseSize? m, parseBool? kd, parseBool? vd, hm.toNat? with
    | some p, some m, some kd, some vd, some _ =>
      if m = 0 then (s, ["bad-op"]) else (some (Cache.init p m kd vd), [])
    | _, _, _, _, _ => (s, ["bad-op"])
  | some c, ["put", i, p, v] =>
    match i.toNat?, p.toNat?, v.toNat? with
    | some i, some p, some v =>
      let (c', _, evs) := c.step (.put ⟨i, p⟩ v)
      (some c', ["P put OK"] ++ showEvs evs true ++ showState c')
    | _, _, _ => (s, ["bad-op"])
  | some c, ["find", i] =>
    match i.toNat? with
    | some i =>
      let (c', r, _) := c.step (.find i)
      (some c', [s!"P find {showVal r}"] ++ showState c')
    | none => (s, ["bad-op"])
  | some c, ["findmv", i] =>
    match i.toNat? with
    | some i =>
      if isCache c then (s, ["bad-op"]) else
      let (c', r, _) := c.step (.findMove i)
      (some c', [s!"P findmv {showVal r}"] ++ showState c')
    | none => (s, ["bad-op"])
  | some c, ["remove", i] =>
    match i.toNat? with
    | some i =>
      let (c', _, evs) := c.step (.remove i)
      (some c', ["P remove OK"] ++ showEvs evs true ++ showState c')
    | none => (s, ["bad-op"])
  | some c, ["clear"] =>
    let (c', _, evs) := c.step .clear
    (some c', ["P clear"] ++ showEvs evs false ++ showState c')
  | some c, ["mvend", i] =>
    match i.toNat? with
    | some i =>
      if isCache c then (s, ["bad-op"]) else
      let present := (lookup c.table.entries i).isSome
      let (c', _, _) := c.step (.moveToEnd i)
      (some c', [if present then "P mvend OK" else "P mvend absent"] ++ showState c')
    | none => (s, ["bad-op"])
  -- `aws_linked_hash_table_clean_up` / `aws_cache_destroy`: `aws_hash_table_clean_up` clears (every remaining key and
  -- value destroyed once), then everything is freed; the table is gone afterwards
  | some c, ["destroy"] =>
    let (_, _, evs) := c.step .clear
    (none, ["P destroy"] ++ showEvs evs false ++ ["P leak=0"])
  | some c, ["uselru"] =>
    if c.policy != .lru then (s, ["bad-op"]) else
    let (c', r, _) := c.step .useLru
    (some c', [s!"P uselru {showVal r}"] ++ showState c')
  | some c, ["getmru"] =>
    if c.policy != .lru then (s, ["bad-op"]) else
    let (c', r, _) := c.step .getMru
    (some c', [s!"P getmru {showVal r}"] ++ showState c')
  | _, _ => (s, ["bad-op"])

/-! ### the implementation-level model (`Model/LhtImpl.lean`: C02 hash table + C09 list) run alongside:
one `W impl` line per call with the hash table's slots and the list walk, compared with the real
`aws_hash_table` slots (through `private/hash_table_impl.h`) and the real list. -/

open AwsVerif in
structure DS where
  c : Option Cache
  impl : Option LhtImpl.State
  hm : Nat

/-- identity 1000 stands for the NULL key: `s_hash_for` gives it 42 without calling the user's hash, and it is
equal to itself only — exactly a key identity whose hash is 42 -/
def nullIdent : Nat := 1000

/-- the harness's `s_hash` per hash mode -/
def hashFn (hm : Nat) (i : Nat) : Nat :=
  if i = nullIdent then 42 else
  match hm with
  | 1 => 7
  | 2 => i % 2
  | 3 => 0
  | _ => (i * 0x9E3779B97F4A7C15) % 2^64

open AwsVerif in
def outState {α : Type} : LhtImpl.Out α → Option LhtImpl.State
  | .ok s _ _ => some s
  | _ => none

open AwsVerif in
/-- the node at the front / the node before the back, as the caches' `put` finds them -/
def victimNode (p : Policy) (s : LhtImpl.State) : Option LhtImpl.NodeId :=
  match p with
  | .lifo => match (s.heap s.list.tail).prev with
    | some b => (s.heap b).prev
    | none => none
  | _ => (s.heap s.list.head).next

open AwsVerif in
def implApply (hm : Nat) (c : Cache) (s : LhtImpl.State) (t : List String) : Option LhtImpl.State :=
  let h := hashFn hm
  match t with
  | ["put", i, p, v] =>
    match outState (LhtImpl.put h s ⟨i.toNat!, p.toNat!⟩ v.toNat!) with
    | none => none
    | some s1 =>
      if c.policy != .none && LhtImpl.count s1 > c.max then
        match victimNode c.policy s1 with
        | some n => outState (LhtImpl.remove h s1 (s1.nodeKey n))
        | none => none
      else some s1
  | ["find", i] =>
    if c.policy == .lru then outState (LhtImpl.findMove h s ⟨i.toNat!, 99⟩)
    else outState (LhtImpl.find h s ⟨i.toNat!, 99⟩)
  | ["findmv", i] => outState (LhtImpl.findMove h s ⟨i.toNat!, 99⟩)
  | ["remove", i] => outState (LhtImpl.remove h s ⟨i.toNat!, 99⟩)
  | ["clear"] => outState (LhtImpl.clear s)
  | ["mvend", i] =>
    match LinkedList.toList s.heap s.list (s.next + 1) with
    | none => none
    | some ns => match ns.find? (fun n => (s.nodeKey n).ident == i.toNat!) with
      | some n => outState (LhtImpl.moveToEnd s n)
      | none => some s
  | ["uselru"] =>
    match (s.heap s.list.head).next with
    | some n => if n == s.list.tail then some s else outState (LhtImpl.moveToEnd s n)
    | none => none
  | ["getmru"] => some s
  | _ => some s

open AwsVerif in
def showImpl : Option LhtImpl.State → String
  | none => "W impl lost"
  | some s =>
    let slots := (List.range s.ht.slots.size).filterMap fun i =>
      match HashTable.rd s.ht.slots i with
      | some e =>
        let k := LhtImpl.unHk e.key
        let v := match e.val with | some n => toString (s.nodeVal n) | none => "NULL"
        some s!"{i}:{k.ident}.{k.ptr}={v}"
      | none => none
    let fwd := match LhtImpl.iterate s (s.next + 1) with
      | some es => joinOrDash (es.map fun (e : Entry) => toString e.2)
      | none => "broken"
    let bwd := match LinkedList.toListRev s.heap s.list (s.next + 1) with
      | some ns => joinOrDash (ns.map fun n => toString (s.nodeVal n))
      | none => "broken"
    s!"W impl size={s.ht.size} cnt={s.ht.entryCount} slots {joinOrDash slots} list {fwd} rlist {bwd}"

open AwsVerif in
def stepAll (d : DS) (t : List String) : DS × List String :=
  let (c', lines) := step d.c t
  if lines == ["bad-op"] then (d, lines) else
  match t with
  | ["init", _, m, kd, vd, hm] =>
    let impl := match LhtImpl.init (parseSize? m).get! (kd == "1") (vd == "1") with
      | .ok s => some s
      | .error _ => none
    ({ c := c', impl := impl, hm := hm.toNat! }, lines)
  | _ =>
    match d.c with
    | none => ({ d with c := c' }, lines)
    | some c =>
      if t == ["destroy"] then ({ d with c := c', impl := none }, lines) else
      let impl' := match d.impl with
        | some s => implApply d.hm c s t
        | none => none
      -- hash modes 4..6 use the library's own string hashes (lookup3), which this model does not compute: no W line
      ({ d with c := c', impl := impl' }, if d.hm ≥ 4 then lines else lines ++ [showImpl impl'])

def component : Component := { σ := DS, init := { c := none, impl := none, hm := 0 }, step := stepAll }
end Driver.LhtD
