import Driver.Util
import AwsVerif.Model.Lht
/-! Driver for the linked hash table / cache model (C18).  Op language:
`init <lht|fifo|lifo|lru> <max> <keyDtor 0|1> <valDtor 0|1> <hashmode>`, `put <ident> <ptr> <val>`,
`find <ident>`, `findmv <ident>`, `remove <ident>`, `clear`, `mvend <ident>`, `uselru`, `getmru`. -/
namespace Driver.LhtD
open AwsVerif.Lht Driver

def showEv : Ev → String
  | .key k => s!"k{k.ident}.{k.ptr}"
  | .val v => s!"v{v}"

def joinOrDash (l : List String) : String := if l.isEmpty then "-" else " ".intercalate l

def showState (c : Cache) : List String :=
  [s!"P count={c.table.count}",
   "P order " ++ joinOrDash (c.table.entries.map (fun e => s!"{e.1.ident}.{e.1.ptr}={e.2}"))]

def showVal : Option Nat → String
  | none => "NULL"
  | some v => toString v

def sortStrs (l : List String) : List String := l.mergeSort (fun a b => !(b < a))

/-- destructor lines: `P` the multiset (sorted), `W` the call sequence (not for clear: hash-slot order) -/
def showEvs (evs : List Ev) (seq : Bool) : List String :=
  let ss := evs.map showEv
  ["P dtor " ++ joinOrDash (sortStrs ss)] ++ (if seq then ["W dtorseq " ++ joinOrDash ss] else [])

def parsePolicy? : String → Option Policy
  | "lht" => some .none
  | "fifo" => some .fifo
  | "lifo" => some .lifo
  | "lru" => some .lru
  | _ => none

def parseBool? : String → Option Bool
  | "0" => some false
  | "1" => some true
  | _ => none

def isCache (c : Cache) : Bool := c.policy != .none

def step (s : Option Cache) (t : List String) : Option Cache × List String :=
  match s, t with
  | _, ["init", p, m, kd, vd, hm] =>
    match parsePolicy? p, parseSize? m, parseBool? kd, parseBool? vd, hm.toNat? with
    | some p, some m, some kd, some vd, some _ =>
      if m = 0 then (s, ["bad-op"]) else (some (Cache.init p m kd vd), [])
    | _, _, _, _, _ => (s, ["bad-op"])
  | some c, ["put", i, p, v] =>
    match i.toNat?, p.toNat?, v.toNat? with
    | some i, some p, some v =>
      let (c', _, evs) := c.step (.put ⟨i, p⟩ v)
      (some c', ["P put OK"] ++ showEvs evs true ++ showState c')
    | _, _, _ => (s, ["bad-op"])
  | some c, ["find", i] =>
    match i.toNat? with
    | some i =>
      let (c', r, _) := c.step (.find i)
      (some c', [s!"P find {showVal r}"] ++ showState c')
    | none => (s, ["bad-op"])
  | some c, ["findmv", i] =>
    match i.toNat? with
    | some i =>
      if isCache c then (s, ["bad-op"]) else
      let (c', r, _) := c.step (.findMove i)
      (some c', [s!"P findmv {showVal r}"] ++ showState c')
    | none => (s, ["bad-op"])
  | some c, ["remove", i] =>
    match i.toNat? with
    | some i =>
      let (c', _, evs) := c.step (.remove i)
      (some c', ["P remove OK"] ++ showEvs evs true ++ showState c')
    | none => (s, ["bad-op"])
  | some c, ["clear"] =>
    let (c', _, evs) := c.step .clear
    (some c', ["P clear"] ++ showEvs evs false ++ showState c')
  | some c, ["mvend", i] =>
    match i.toNat? with
    | some i =>
      if isCache c then (s, ["bad-op"]) else
      let present := (lookup c.table.entries i).isSome
      let (c', _, _) := c.step (.moveToEnd i)
      (some c', [if present then "P mvend OK" else "P mvend absent"] ++ showState c')
    | none => (s, ["bad-op"])
  | some c, ["uselru"] =>
    if c.policy != .lru then (s, ["bad-op"]) else
    let (c', r, _) := c.step .useLru
    (some c', [s!"P uselru {showVal r}"] ++ showState c')
  | some c, ["getmru"] =>
    if c.policy != .lru then (s, ["bad-op"]) else
    let (c', r, _) := c.step .getMru
    (some c', [s!"P getmru {showVal r}"] ++ showState c')
  | _, _ => (s, ["bad-op"])

def component : Component := { σ := Option Cache, init := none, step := step }
end Driver.LhtD
