import Driver.Util
import AwsVerif.Model.Sched
/-! Driver for the task-scheduler model (component `sched`).

Ops: `init <ntasks>` | `script T<k> <gen> run|canceled <actions>` (actions `now T<j>`, `future T<j> <time>`,
`cancel T<j>` separated by `;`) | `sched_now T<k>` | `sched_future T<k> <time>` | `cancel T<k>` |
`run_all <time>` | `has_tasks` | `cleanup` | `failmode 0|1`.
After every scheduler op: the log entries it produced (`P log`), refused actions (`P skipped`), `P has`,
and the `W` lines (asap order, timed_list order, heap array order). -/
namespace Driver.SchedD
open AwsVerif.Sched AwsVerif.Heap Driver

structure DSt where
  s : St
  scripts : List ((Nat × Nat × Status) × List Action)

def fuel : Nat := 100000

def scriptOf (tbl : List ((Nat × Nat × Status) × List Action)) : Script :=
  fun t g st => match tbl.find? (fun e => e.1 == (t, g, st)) with
    | some e => e.2
    | none => []

def parseTask? (s : String) : Option Nat :=
  if s.startsWith "T" then (s.drop 1).toString.toNat? else none

def parseTime? (s : String) : Option Nat :=
  match parseU64? s with
  | some n => if n < 2^64 then some n else none
  | none => none

def parseAction? : List String → Option Action
  | ["now", t] => (parseTask? t).map .scheduleNow
  | ["future", t, time] => do let t ← parseTask? t; let time ← parseTime? time; pure (.scheduleFuture t time)
  | ["cancel", t] => (parseTask? t).map .cancel
  | _ => none

/-- split on the token ";" -/
def splitSemi (ts : List String) : List (List String) :=
  let r := ts.foldl (fun (acc : List (List String) × List String) t =>
    if t == ";" then (acc.1 ++ [acc.2], []) else (acc.1, acc.2 ++ [t])) ([], [])
  r.1 ++ [r.2]

def parseActions? (ts : List String) : Option (List Action) :=
  if ts.isEmpty then some [] else
  (splitSemi ts).foldl (fun acc a => do let l ← acc; let x ← parseAction? a; pure (l ++ [x])) (some [])

def statusName : Status → String
  | .run => "RUN"
  | .canceled => "CANCELED"

def report (old new : St) : List String :=
  let ents := (new.log.drop old.log.length).map fun e => s!"P log T{e.task} g{e.gen} {statusName e.status} {e.now}"
  let sk := if new.skipped > old.skipped then [s!"P skipped {new.skipped - old.skipped}"] else []
  let dv := if new.diverged then ["P DIVERGED"] else []
  let h := hasTasks new
  let has := [s!"P has {if h.1 then 1 else 0} {h.2}"]
  let asap := String.join (new.asap.map fun t => s!" T{t}:{new.ts t}")
  let tl := String.join (new.timedList.map fun t => s!" T{t}:{new.ts t}")
  let heap := String.join (new.timed.items.toList.map fun e => s!" {e.key}:T{e.uid}")
  let run := String.join (new.running.map fun t => s!" T{t}")
  ents ++ sk ++ dv ++ has ++ [s!"W asap{asap}", s!"W tl{tl}", s!"W heap{heap}", s!"W running{run}"]

/-- keep handle lookups O(1): tabulate the heap's handle function over the task ids -/
def compact (s : St) : St :=
  let arr : Array (Option Nat) := (Array.range s.ntasks).map s.timed.handles
  let tsA : Array Nat := (Array.range s.ntasks).map s.ts
  let scA : Array Bool := (Array.range s.ntasks).map s.scheduled
  let gA : Array Nat := (Array.range s.ntasks).map s.gen
  { s with timed := { s.timed with handles := fun h => (arr[h]?).getD none },
           tsAt := fun _ _ => 0, ts := fun t => (tsA[t]?).getD 0, scheduled := fun t => (scA[t]?).getD false, gen := fun t => (gA[t]?).getD 0 }

def doOp (d : DSt) (op : AwsVerif.Sched.Op) : Option DSt × List String :=
  let s' := compact (opStep fuel (scriptOf d.scripts) d.s op)
  (some { d with s := s' }, report d.s s')

def step (d : Option DSt) (t : List String) : Option DSt × List String :=
  match d, t with
  | _, ["init", n] =>
    match n.toNat? with
    | some n => if n = 0 ∨ n > 64 then (d, ["bad-op"]) else (some ⟨St.init n, []⟩, [])
    | none => (d, ["bad-op"])
  | some d, "script" :: tk :: g :: st :: acts =>
    match parseTask? tk, g.toNat?, (if st == "run" then some Status.run else if st == "canceled" then some Status.canceled else none),
          parseActions? acts with
    | some tk, some g, some st, some acts =>
      if tk < d.s.ntasks then (some { d with scripts := ((tk, g, st), acts) :: d.scripts }, []) else (some d, ["bad-op"])
    | _, _, _, _ => (some d, ["bad-op"])
  | some d, ["sched_now", tk] =>
    match parseTask? tk with
    | some tk => doOp d (.schedNow tk)
    | none => (some d, ["bad-op"])
  | some d, ["sched_future", tk, time] =>
    match parseTask? tk, parseTime? time with
    | some tk, some time => doOp d (.schedFuture tk time)
    | _, _ => (some d, ["bad-op"])
  | some d, ["cancel", tk] =>
    match parseTask? tk with
    | some tk => doOp d (.cancel tk)
    | none => (some d, ["bad-op"])
  | some d, ["stale_link", tk] =>
    -- the harness leaves stale links in the task's list node; task nodes are not part of the abstract state (list
    -- membership is), so this is a no-op on the model (refused, like every wrapper action, for a pending task)
    match parseTask? tk with
    | some tk =>
      let s' := if tk < d.s.ntasks ∧ d.s.scheduled tk = false then d.s else skip d.s
      (some { d with s := s' }, report d.s s')
    | none => (some d, ["bad-op"])
  | some d, ["cancel_raw", tk] =>
    -- `aws_task_scheduler_cancel_task` without the client wrapper's guard (outside the API contract the theorems
    -- assume): the C code itself — unlink / remove by handle if applicable, then `aws_task_run(task, CANCELED)`
    match parseTask? tk with
    | some tk =>
      let s' := if tk < d.s.ntasks then runTask fuel (scriptOf d.scripts) (unlink d.s tk) tk .canceled .cancel else skip d.s
      let s' := compact s'
      (some { d with s := s' }, report d.s s')
    | none => (some d, ["bad-op"])
  | some d, ["run_all", time] =>
    match parseTime? time with
    | some time => doOp d (.runAll time)
    | none => (some d, ["bad-op"])
  | some d, ["has_tasks"] => doOp d .hasTasks
  | some d, ["cleanup"] => doOp d .cleanUp
  | some d, ["failmode", b] =>
    if b == "0" then doOp d (.failMode false) else if b == "1" then doOp d (.failMode true) else (some d, ["bad-op"])
  | _, _ => (d, ["bad-op"])

def component : Component := { σ := Option DSt, init := none, step := step }
end Driver.SchedD
