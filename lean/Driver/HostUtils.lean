import Driver.Util
import AwsVerif.Model.HostUtils
/-! Driver for the C04 model stage: `p ipv6 <hex>` → the line harness/parsers.c prints for the same op
(both flag values; for the empty input also the NULL/0 view, which the model does not distinguish:
`aws_host_utils_is_ipv6` returns before touching `host.ptr` when `host.len == 0`). -/
namespace Driver.HostUtilsD
open AwsVerif.HostUtils Driver

def showB (b : Bool) : String := if b then "true" else "false"

def line (variant : String) (inp : List UInt8) : String :=
  match isIpv6 inp false, isIpv6 inp true with
  | .ok a, .ok b => s!"P ipv6 {variant} is_ipv6 {showB (a || b)} plain={showB a} encoded={showB b} chan=ok views=- canary=-"
  | .error (.oob o), _ => s!"P ipv6 {variant} is_ipv6 FAULT oob={o}"
  | _, .error (.oob o) => s!"P ipv6 {variant} is_ipv6 FAULT oob={o}"

def step (s : Unit) (t : List String) : Unit × List String :=
  match t with
  | ["p", "ipv6", h] =>
    match parseHex? h with
    | some inp =>
      (s, [line "blk" inp] ++ (if inp.isEmpty then [line "null" inp] else []) ++ ["E ipv6"])
    | none => (s, ["bad-op"])
  | _ => (s, ["bad-op"])

def component : Component := { σ := Unit, init := (), step := step }
end Driver.HostUtilsD
