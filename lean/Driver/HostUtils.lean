import Driver.Util
import AwsVerif.Model.HostUtils
import AwsVerif.Model.PercentDecode
import AwsVerif.Model.Uuid
/-! Driver for the C04 model stage: for every op it prints the lines harness/parsers.c prints for the same op.
  p ipv6 <hex>                    aws_host_utils_is_ipv6, both flag values
  p ipv4 <hex>                    aws_host_utils_is_ipv4
  p uuid <hex>                    aws_uuid_init_from_str
  p uuidstr <hex> pre=N slack=K   aws_uuid_to_str into a buffer of capacity N+K with len N, then parse the text back
  p uridec <hex> pre=N cap=C show=1   aws_byte_buf_append_decoding_uri
For the empty input the harness also runs the NULL/0 view; none of these functions dereferences a zero-length view, so
the model prints the same verdict for both. -/
namespace Driver.HostUtilsD
open AwsVerif.HostUtils Driver

def showB (b : Bool) : String := if b then "true" else "false"

def opt (t : List String) (key : String) (dflt : String) : String :=
  match t.find? (fun s => s.startsWith (key ++ "=")) with
  | some s => (s.drop (key.length + 1)).toString
  | none => dflt

def ipv6Line (variant : String) (inp : List UInt8) : String :=
  match isIpv6 inp false, isIpv6 inp true with
  | .ok a, .ok b => s!"P ipv6 {variant} is_ipv6 {showB (a || b)} plain={showB a} encoded={showB b} chan=ok views=- canary=-"
  | .error (.oob o), _ => s!"P ipv6 {variant} is_ipv6 FAULT oob={o}"
  | _, .error (.oob o) => s!"P ipv6 {variant} is_ipv6 FAULT oob={o}"

def ipv4Line (variant : String) (inp : List UInt8) : String :=
  match isIpv4 inp with
  | .ok r => s!"P ipv4 {variant} is_ipv4 {showB r.verdict} chan=ok views=- canary=-"
  | .error (.oob o) => s!"P ipv4 {variant} is_ipv4 FAULT oob={o}"

def uuidLine (variant : String) (inp : List UInt8) : String :=
  match AwsVerif.Uuid.fromStr inp with
  | .ok ⟨.ok bytes, _⟩ => s!"P uuid {variant} init_from_str OK v={hexOf bytes} chan=ok views=- canary=ok"
  | .ok ⟨.error e, _⟩ => s!"P uuid {variant} init_from_str ERR {e.name} chan=ok views=- canary=ok"
  | .error _ => s!"P uuid {variant} init_from_str FAULT"

def pattern (n : Nat) : List UInt8 := (List.range n).map (fun i => UInt8.ofNat (0xA0 + i % 16))

def uuidstrLine (variant : String) (inp : List UInt8) (pre slack : Nat) : String :=
  let u := (inp ++ List.replicate 16 0).take 16
  let cells := pattern pre ++ List.replicate slack 0xC5
  match AwsVerif.Uuid.toStr u cells pre with
  | .ok (.ok (cells', len')) =>
    let txt := (cells'.drop pre).take (len' - pre)
    let back := match AwsVerif.Uuid.fromStr txt with
      | .ok ⟨.ok b, _⟩ => b == u
      | _ => false
    let intact := cells'.take pre == pattern pre
    s!"P uuidstr {variant} to_str OK text={hexOf txt} roundtrip={if back then "same" else "DIFF"} chan=ok views=- canary={if intact then "ok" else "BAD:prefix-overwritten"}"
  | .ok (.error e) => s!"P uuidstr {variant} to_str ERR {e.name} chan=ok views=- canary=ok"
  | .error _ => s!"P uuidstr {variant} to_str FAULT"

def uridecLine (variant : String) (inp : List UInt8) (pre cap : Nat) (showOut : Bool) : String :=
  let cap := if cap < pre then pre else cap
  let p := pattern pre
  let fmt (cls : String) (out : List UInt8) : String :=
    let dec := out.drop pre
    s!"P uridec {variant} decode {cls} outlen={dec.length}" ++ (if showOut then s!" out={hexOf dec}" else "") ++
      s!" chan=ok views=- canary={if out.take pre == p then "ok" else "BAD:prefix-overwritten"}"
  match AwsVerif.PercentDecode.appendDecodingUri p cap inp with
  | .ok (.ok out _) => fmt "OK" out
  | .ok (.malformed out _) => fmt "ERR AWS_ERROR_MALFORMED_INPUT_STRING" out
  | .ok .overflow => s!"P uridec {variant} decode ERR AWS_ERROR_OVERFLOW_DETECTED"
  | .error _ => s!"P uridec {variant} decode FAULT"

def both (inp : List UInt8) (f : String → String) (name : String) : List String :=
  [f "blk"] ++ (if inp.isEmpty then [f "null"] else []) ++ ["E " ++ name]

def step (s : Unit) (t : List String) : Unit × List String :=
  match t with
  | "p" :: name :: h :: rest =>
    match parseHex? h with
    | none => (s, ["bad-op"])
    | some inp =>
      match name with
      | "ipv6" => (s, both inp (fun v => ipv6Line v inp) name)
      | "ipv4" => (s, both inp (fun v => ipv4Line v inp) name)
      | "uuid" => (s, both inp (fun v => uuidLine v inp) name)
      | "uuidstr" =>
        match (opt rest "pre" "0").toNat?, (opt rest "slack" "37").toNat? with
        | some pre, some slack => (s, both inp (fun v => uuidstrLine v inp pre slack) name)
        | _, _ => (s, ["bad-op"])
      | "uridec" =>
        match (opt rest "pre" "0").toNat?, (opt rest "cap" "0").toNat? with
        | some pre, some cap => (s, both inp (fun v => uridecLine v inp pre cap (opt rest "show" "0" == "1")) name)
        | _, _ => (s, ["bad-op"])
      | _ => (s, ["bad-op"])
  | _ => (s, ["bad-op"])

def component : Component := { σ := Unit, init := (), step := step }
end Driver.HostUtilsD
