import Driver.Util
import AwsVerif.Model.Threads
/-! C20 driver: runs `AwsVerif.Threads.step` under the scheduler discipline of harness/detsched.c
(pick among enabled sync steps by ordinal; choice list / explicit list / fair default policy; virtual
time jumps; deadlock detection) and prints the P log and the W event sequence. -/
namespace Driver.ThreadsD
open AwsVerif.Threads Driver

structure DState where
  slots : List (Nat × Bool × List Action) := []
  mainActs : List Action := []
  failAt : Option Nat := none
  failErr : Nat := 11
  tick : Nat := 0
  start : Nat := 0
  onces : List (Nat × List Nat) := []
  /-- per slot: for every join-all of its body in order, whether it is the one inside `X` (result not observable) -/
  voids : List (Nat × List Bool) := []

def parseAction (s0 : String) : Option (List Action) :=
  let named := s0.endsWith "n" && s0.length > 1
  let s := if named then s0.dropRight 1 else s0
  match s.toList with
  | [] => none
  | c :: r =>
    let num : Option Nat := if r.isEmpty then some 0 else (String.ofList r).toNat?
    let slot (k : Nat) : Bool := 1 ≤ k && k < 8
    match c, num with
    | 'L', some k => if slot k then some [(.launch k false 0 named)] else none
    | 'P', some k => if slot k then some [(.launch k true 0 named)] else none
    | 'Q', some k => if slot k then some [(.launch k true 1 named)] else none
    | 'R', some k => if slot k then some [(.launch k true 2 named)] else none
    | 'J', some k => if slot k && !named then some [(.join k)] else none
    | 'D', some k => if slot k && !named then some [(.cleanup k)] else none
    | 'A', some k => if named then none else some [(.atexit k)]
    | 'C', some _ => if named then none else some [.getCount]
    | 'W', some _ => if named then none else some [.joinAll]
    | 'T', some k => if named then none else some [(.setTimeout k)]
    | 'Y', some _ => if named then none else some [.yield]
    | 'S', some k => if named then none else some [(.sleep k)]
    | 'O', some k => if named then none else some [(.once k)]
    | 'I', some _ => if named then none else some [.libInit]
    | 'N', some _ => if named then none else some [.getName]
    -- aws_common_library_clean_up (= join_all_managed, result ignored, + unregistering) followed by
    -- aws_common_library_init (re-initialises the pending list) and a read of the managed count
    | 'X', some _ => if named then none else some [.joinAll, .libReinit, .getCount]
    -- launches in which a pthread_attr_* step fails: E attr_init (ENOMEM), F setstacksize, G getstacksize (EINVAL): the
    -- launch fails; H: setaffinity fails, the library retries without pinning (from there on an ordinary launch)
    | 'E', some k => if slot k then some [.launchAttr k 12] else none
    | 'F', some k => if slot k then some [.launchAttr k 22] else none
    | 'G', some k => if slot k then some [.launchAttr k 22] else none
    | 'H', some k => if slot k then some [.launch k false 0 named] else none
    | _, _ => none

def parseActions (l : List String) : Option (List Action) := (l.mapM parseAction).map List.flatten

def voidsOf (l : List String) : List Bool :=
  l.filterMap (fun a => if a.startsWith "W" then some false else if a.startsWith "X" then some true else none)

def mkProg (d : DState) : Prog :=
  let find (k : Nat) := d.slots.find? (fun e => e.1 == k)
  { n := 8
    managed := fun k => match find k with | some e => e.2.1 | none => false
    body := fun k => if k = 0 then d.mainActs else match find k with | some e => e.2.2 | none => []
    onceRegs := fun i => match d.onces.find? (fun e => e.1 == i) with | some e => e.2 | none => []
    failAt := d.failAt, failErr := d.failErr, tick := d.tick, start := d.start }

def alive (s : State) (k : Nat) : Bool :=
  let r := (s.th k).status.rank
  decide (1 ≤ r ∧ r ≤ 5)

def slotOfOrd (s : State) (o : Nat) : Option Nat :=
  (List.range 8).find? (fun k => (s.th k).status != .notCreated && (s.th k).ord == o)

/-- slots that exist, in ordinal order -/
def slotsByOrd (s : State) : List Nat :=
  (List.range s.nextOrd).filterMap (slotOfOrd s)

def runLocals (P : Prog) : Nat → State → Nat → State
  | 0, s, _ => s
  | f + 1, s, t =>
    if alive s t && !nextIsSync s t then
      match step P s t with
      | some s' => runLocals P f s' t
      | none => s
    else s

/-- rebuild the function-valued fields from strict arrays (keeps closure chains short on long runs) -/
def compact (s : State) : State :=
  let ths : Array Th := (Array.range 8).map s.th
  let hs : Array HState := (Array.range 8).map s.hstate
  { s with th := fun j => if h : j < ths.size then ths[j] else {},
           hstate := fun j => if h : j < hs.size then hs[j] else .notCreated }

structure Sch where
  mode : Nat           -- 0 choices, 1 explicit
  list : List Int
  cur : Nat := 0
  consec : Nat := 0
  taken : List Int := []   -- newest first
  diverged : Bool := false

def spuriousWake (s : State) (k : Nat) : State :=
  let s1 := { s with th := upd s.th k { s.th k with woken := true } }
  pushW s1 { t := (s.th k).ord, kind := "spurious", obj := "c0", aux := 0 }

def preEntries : Nat → State → Sch → State × Sch
  | 0, s, c => (s, c)
  | f + 1, s, c =>
    match c.list with
    | [] => (s, c)
    | x :: r =>
      if c.mode == 1 then
        if x ≥ 16384 then
          let o := (x - 16384).toNat
          match slotOfOrd s o with
          | some k =>
            if eligible s k then preEntries f (spuriousWake s k) { c with list := r, taken := x :: c.taken }
            else preEntries f s { c with list := r, diverged := true }
          | none => preEntries f s { c with list := r, diverged := true }
        else (s, c)
      else if x < 0 then
        let ws := (slotsByOrd s).filter (eligible s)
        match ws[((-x - 1).toNat) % (max ws.length 1)]? with
        | some k => preEntries f (spuriousWake s k)
            { c with list := r, taken := (Int.ofNat (16384 + (s.th k).ord)) :: c.taken }
        | none => preEntries f s { c with list := r }
      else (s, c)

def deadlineOf (s : State) (k : Nat) : Option Nat :=
  match (s.th k).code with
  | .sleepUntil u :: _ => some u
  | .cwake :: _ => if eligible s k then (s.th k).deadline else none
  | _ => none

/-- enabled ordinals (ascending), after jumping virtual time if nothing is enabled;
    `none` = deadlock; `some []` = all threads exited -/
def enabledSet (P : Prog) : Nat → State → State × Option (List Nat)
  | 0, s => (s, none)
  | f + 1, s =>
    let sl := slotsByOrd s
    let al := sl.filter (alive s)
    let en := al.filter (fun k => (step P s k).isSome)
    if !en.isEmpty then (s, some (en.map (fun k => (s.th k).ord)))
    else if al.isEmpty then (s, some [])
    else
      match (al.filterMap (deadlineOf s)).foldl (fun (a : Option Nat) d => match a with | none => some d | some b => some (min b d)) none with
      | none => (s, none)
      | some d => if d ≤ s.now then (s, none) else enabledSet P f { s with now := d }

def defaultPolicy (c : Sch) (en : List Nat) (quantum : Nat) : Nat × Sch :=
  if en.contains c.cur && c.consec < quantum then (c.cur, { c with consec := c.consec + 1 })
  else
    match en.find? (fun e => e > c.cur) with
    | some e => (e, { c with consec := 0 })
    | none => (en.headD 0, { c with consec := 0 })

def choose (c : Sch) (en : List Nat) : Nat × Sch :=
  match c.list with
  | [] => defaultPolicy c en 16
  | x :: r =>
    let c1 := { c with list := r }
    if c.mode == 1 then
      if en.contains x.toNat && x ≥ 0 then (x.toNat, { c1 with consec := 0 })
      else defaultPolicy { c1 with diverged := true } en 16
    else if x > 0 then (en[(x.toNat - 1) % en.length]?.getD 0, { c1 with consec := 0 })
    else defaultPolicy c1 en 16

inductive Outcome where | finished | deadlock | livelock
  deriving DecidableEq

def runLoop (P : Prog) : Nat → State → Sch → State × Sch × Outcome
  | 0, s, c => (s, c, .livelock)
  | f + 1, s, c =>
    let (s1, c1) := preEntries 64 s c
    match enabledSet P 64 s1 with
    | (s2, none) => (s2, c1, .deadlock)
    | (s2, some []) => (s2, c1, .finished)
    | (s2, some en) =>
      let (o, c2) := choose c1 en
      let c3 := { c2 with cur := o, taken := Int.ofNat o :: c2.taken }
      match slotOfOrd s2 o with
      | none => (s2, c3, .deadlock)
      | some k =>
        match step P s2 k with
        | none => (s2, c3, .deadlock)
        | some s3 => runLoop P f (compact (runLocals P 100000 s3 k)) c3

/-- depth-first enumeration of explicit schedules (thread ordinals) with at most `budget` preemptions
    (switching away from a thread that is still enabled); prefixes are cut at `fuel` picks and are
    completed by the default policy when they are run.  `acc` = (number emitted, schedules). -/
def explore (P : Prog) (cap : Nat) : Nat → State → Nat → Nat → List Nat → Nat × List (List Nat) → Nat × List (List Nat)
  | 0, _, _, _, pre, acc => if acc.1 < cap then (acc.1 + 1, pre.reverse :: acc.2) else acc
  | f + 1, s, cur, budget, pre, acc =>
    if acc.1 ≥ cap then acc else
    match enabledSet P 64 s with
    | (_, none) => (acc.1 + 1, pre.reverse :: acc.2)
    | (_, some []) => (acc.1 + 1, pre.reverse :: acc.2)
    | (s2, some en) =>
      en.foldl (fun acc o =>
        let cost := if o != cur && en.contains cur then 1 else 0
        if cost > budget then acc else
        match slotOfOrd s2 o with
        | none => acc
        | some k =>
          match AwsVerif.Threads.step P s2 k with
          | none => acc
          | some s3 => explore P cap f (compact (runLocals P 100000 s3 k)) o (budget - cost) (o :: pre) acc) acc

def errName (e : Nat) : String :=
  if e == 0 then "OK" else if e == 22 then "AWS_ERROR_THREAD_INVALID_SETTINGS"
  else if e == 11 then "AWS_ERROR_THREAD_INSUFFICIENT_RESOURCE"
  else if e == 1 then "AWS_ERROR_THREAD_NO_PERMISSIONS" else if e == 12 then "AWS_ERROR_OOM" else "AWS_ERROR_UNKNOWN"

def showEv : Ev → List String
  | .launchRet k b e => [s!"P launch s{k} by=s{b} rc={errName e}"]
  | .run k a => if k == 0 then [] else [s!"P run s{k} arg={a}"]
  | .reg k c ok => [s!"P reg s{k} cb{c} rc={if ok then "OK" else "AWS_ERROR_THREAD_NOT_JOINABLE"}"]
  | .done k => [s!"P done s{k}"]
  | .cb o c on => [s!"P cb s{o} cb{c} on=s{on}"]
  | .joinRet k b => [s!"P join s{k} by=s{b} rc=OK pre=JOINABLE post=JOIN_COMPLETED id=ok"]
  | .joinSkip k b h st =>
    let n := match h with | .notCreated => "NOT_CREATED" | .joinable => "JOINABLE" | .managed => "MANAGED" | .joinCompleted => "JOIN_COMPLETED"
    [s!"P join s{k} by=s{b} rc=OK pre={n} post={n} id={if st then "ok" else "-"}"]
  | .joinFail k b e st => [s!"P join s{k} by=s{b} rc={if e == 35 then "AWS_ERROR_THREAD_DEADLOCK_DETECTED" else "AWS_ERROR_THREAD_NOT_JOINABLE"} pre=JOINABLE post=JOINABLE id={if st then "ok" else "-"}"]
  | .name t b => [s!"P name s{t} {if b then "c20-thread" else "other"}"]
  | .count b n => [s!"P count s{b} {n}"]
  | .joinAllBegin b => [s!"P joinall begin s{b}"]
  | .joinAllRet _ ok _ => [s!"P joinall rc={if ok then "OK" else "ERR"}"]

/-- the P lines of the log (oldest first); join-all lines carry the virtual time of the event (`times`, oldest first)
    and the join-all inside `X` prints `VOID` (aws_common_library_clean_up returns nothing) -/
def showLog (voids : Nat → List Bool) : List Ev → List Nat → List (Nat × Nat) → List String
  | [], _, _ => []
  | e :: r, times, seen =>
    match e with
    | .joinAllBegin b => s!"P joinall begin s{b} t={times.headD 0}" :: showLog voids r (times.drop 1) seen
    | .joinAllRet b ok _ =>
      let i := match seen.find? (fun x => x.1 == b) with | some x => x.2 | none => 0
      let v := (voids b)[i]?.getD false
      s!"P joinall rc={if v then "VOID" else if ok then "OK" else "ERR"} t={times.headD 0}" ::
        showLog voids r (times.drop 1) ((b, i + 1) :: seen.filter (fun x => x.1 != b))
    | _ => showEv e ++ showLog voids r times seen

def showW (e : WEv) : String := s!"W ev t{e.t} {e.kind} {e.obj} {e.aux}"

def blockedDesc (s : State) : String :=
  let parts := (slotsByOrd s).filter (alive s) |>.map fun k =>
    let o := (s.th k).ord
    match (s.th k).code with
    | .lock :: _ => s!"t{o}:lock m0"
    | .joinM j :: _ => s!"t{o}:join {tname s j}"
    | .joinU j :: _ => s!"t{o}:join {tname s j}"
    | .cwake :: _ => s!"t{o}:wake c0"
    | .sleepUntil _ :: _ => s!"t{o}:sleep"
    | _ => s!"t{o}:?"
  " ".intercalate parts

def runCase (d : DState) (mode : Nat) (list : List Int) : List String :=
  let P := mkProg d
  let (s, c, out) := runLoop P 20000 (init P) { mode := mode, list := list }
  let live := s.wLive + s.cbLive
  let misuse := (s.wlog.filter (fun e => (e.kind == "unlock" && e.aux != 0) || ((e.kind == "join" || e.kind == "detach") && e.aux == 22))).length + s.misuse
  let unjoined := ((List.range 8).filter (fun k => P.managed k && decide (2 ≤ (s.th k).status.rank) &&
    (s.th k).status != .joined)).length
  let dl := if out == .deadlock then 1 else 0
  let ll := if out == .livelock then 1 else 0
  let cnt := if out == .finished then s.count else 0
  let voids (k : Nat) : List Bool := match d.voids.find? (fun e => e.1 == k) with | some e => e.2 | none => []
  showLog voids s.log.reverse s.jlog.reverse [] ++
  (if s.dropped > 0 then [s!"P reinit dropped={s.dropped}"] else []) ++
  [s!"P end deadlock={dl} livelock={ll} misuse={misuse} rerun=0 count={cnt} live={live} unjoined={unjoined}"] ++
  (if out != .finished then [s!"P blocked {blockedDesc s}"] else []) ++
  (if c.diverged then ["W diverged"] else []) ++
  [String.join ("W sched" :: c.taken.reverse.map (fun x => s!" {x}"))] ++
  s.wlog.reverse.map showW

def step (d : DState) (t : List String) : DState × List String :=
  match t with
  | "slot" :: k :: m :: acts =>
    match k.toNat?, parseActions acts with
    | some k, some a =>
      -- "U@h": a manual thread launched on the (joined, not re-initialised) handle of slot h; the model treats every
      -- launch/join cycle of a handle as a slot of its own
      if 1 ≤ k ∧ k < 8 ∧ (m == "M" ∨ m == "U" ∨ m.startsWith "U@") then
        ({ d with slots := (k, m == "M", a) :: d.slots, voids := (k, voidsOf acts) :: d.voids }, []) else (d, ["bad-op"])
    | _, _ => (d, ["bad-op"])
  | "main" :: acts =>
    match parseActions acts with
    | some a => ({ d with mainActs := a, voids := (0, voidsOf acts) :: d.voids }, [])
    | none => (d, ["bad-op"])
  | ["fail", n, e] =>
    match n.toNat?, e.toNat? with
    | some n, some e => ({ d with failAt := some n, failErr := e }, [])
    | _, _ => (d, ["bad-op"])
  | "once" :: i :: cs =>
    match i.toNat?, cs.mapM (fun (c : String) => c.toNat?) with
    | some i, some cs => ({ d with onces := (i, cs) :: d.onces }, [])
    | _, _ => (d, ["bad-op"])
  | ["tick", n] =>
    match parseU64? n with
    | some n => ({ d with tick := n }, [])
    | none => (d, ["bad-op"])
  | ["clock", n] =>
    match parseU64? n with
    | some n => ({ d with start := n }, [])
    | none => (d, ["bad-op"])
  | "run" :: "choices" :: l =>
    match l.mapM parseInt? with
    | some l => (d, runCase d 0 l)
    | none => (d, ["bad-op"])
  | "run" :: "sched" :: l =>
    match l.mapM parseInt? with
    | some l => (d, runCase d 1 l)
    | none => (d, ["bad-op"])
  | ["explore", pb, depth, cap] =>
    match pb.toNat?, depth.toNat?, cap.toNat? with
    | some pb, some depth, some cap =>
      let P := mkProg d
      let r := explore P cap depth (init P) 0 pb [] (0, [])
      (d, r.2.reverse.map (fun l => String.join ("X" :: l.map (fun x => s!" {x}"))))
    | _, _, _ => (d, ["bad-op"])
  | _ => (d, ["bad-op"])

def component : Component := { σ := DState, init := {}, step := step }
end Driver.ThreadsD
