import Driver.Util
import AwsVerif.Model.MemTrace
/-! Driver for the memory-tracer model (C17).  Plain operations run on the sequential model
(`Seq.step`); an operation carrying an injection runs on the interleaving model (`Sys`): the main
operation is advanced action by action and the injected operation is run to completion at the
named schedule point, exactly where the harness runs it inside `verif_sched_point`. -/
namespace Driver.MemTraceD
open AwsVerif.MemTrace Driver

structure St where
  seq : Option Seq := none
  ids : List (String × Addr) := []
  /-- pending injection: point kind, occurrence, operation tokens -/
  inj : Option (String × Nat × List String) := none
  /-- `aws_backtrace()` works on the platform the harness was built for (`platform nobt` says it does not) -/
  bt : Bool := true

/-- Adler-32 of the block contents -/
def digest (bs : List UInt8) : Nat :=
  let (a, b) := bs.foldl (fun (ab : Nat × Nat) x => let a := (ab.1 + x.toNat) % 65521; (a, (ab.2 + a) % 65521)) (1, 0)
  b * 65536 + a

def hex32 (x : Nat) : String :=
  String.ofList ((List.range 8).map (fun i => hexDigit ((x >>> (4 * (7 - i))) % 16)))

def blkLine (par : Parent) (a : Addr) : String :=
  if a = 0 then "P blk null" else
  match par.get a with
  | none => "P blk missing"
  | some b => match b.data with
    | none => s!"P blk size={b.size} h=-"
    | some d => s!"P blk size={b.size} h={hex32 (digest d)}"

/-- white-box: did the realloc answer with another address (the harness parent's keep/move rule, or the
emulation's `old ≥ new` rule) -/
def movedLine (old new : Addr) : List String :=
  if new = 0 then [] else [s!"W moved={if new = old then 0 else 1}"]

def statLine (tr : Tracer) : String := s!"P bytes={tr.bytes} count={tr.count}"

def addrOf (st : St) (id : String) : Addr := (st.ids.lookup id).getD 0
def setId (st : St) (id : String) (a : Addr) : St :=
  let ids := st.ids.filter (fun e => e.1 != id)
  { st with ids := if a = 0 then ids else (id, a) :: ids }

/-- smallest address ≥ 1 not live in the wrapped allocator (maximal reuse of addresses) -/
def firstGap : Nat → List Nat → Nat
  | c, [] => c
  | c, a :: r => if a = c then firstGap (c + 1) r else if a < c then firstGap c r else c

def pickFresh (par : Parent) : Addr :=
  firstGap 1 ((par.blocks.map (·.1)).mergeSort (· ≤ ·))

/-- answer of the harness parent to a realloc: in place iff asked to and the capacity suffices -/
def reallocDest (par : Parent) (a : Addr) (old new : Nat) (keep : Bool) : Addr :=
  if !par.hasRealloc then (if old ≥ new then a else pickFresh par)   -- emulation: no choice
  else match par.get a with
  | some b => if keep && new ≤ b.cap then a else pickFresh par
  | none => pickFresh par

def natList (l : List Nat) : String := if l.isEmpty then "-" else ",".intercalate (l.map toString)

def insertNat (x : Nat) : List Nat → List Nat
  | [] => [x]
  | y :: r => if x ≤ y then x :: y :: r else y :: insertNat x r

def dumpLines (o : Option DumpOut) : List String :=
  match o with
  | none => ["P dump none"]
  | some d => [s!"P dump hdr={d.bytes}/{d.count} sizes={natList (d.sizes.foldr insertNat [])}",
               s!"W dump order={natList d.sizes}"]

def sidAcq : Nat := 1
def sidCal : Nat := 2
def sidRe : Nat := 3

inductive Parsed where
  | acq (id : String) (sz : Nat)
  | cal (id : String) (n s : Nat)
  | re (id : String) (new : Nat) (keep : Bool)
  | rel (id : String)
  | bytes | count | dump

def parseOp (t : List String) : Option Parsed :=
  match t with
  | ["acq", id, sz] => (parseSize? sz).map (.acq id)
  | ["calloc", id, n, s] => do let n ← parseSize? n; let s ← parseSize? s; pure (.cal id n s)
  | ["realloc", id, new, "keep"] => (parseSize? new).map (.re id · true)
  | ["realloc", id, new, "move"] => (parseSize? new).map (.re id · false)
  | ["rel", id] => some (.rel id)
  | ["bytes"] => some .bytes
  | ["count"] => some .count
  | ["dump"] => some .dump
  | _ => none

/-- an operation the harness refuses to perform (it would trip a fatal precondition or reuse a live id) -/
def refused (st : St) : Parsed → Bool
  | .acq id sz => sz = 0 || sz > SIZE_MAX || addrOf st id != 0
  | .cal id n s => n = 0 || s = 0 || n * s ≥ W || addrOf st id != 0
  | .re _ new _ => new > SIZE_MAX
  | _ => false

/-- one plain operation on the sequential model -/
def plain (st : St) (s : Seq) (p : Parsed) : St × List String :=
  match p with
  | .acq id sz =>
    let a := pickFresh s.par
    let (s', _) := s.step (.acquire a sz sidAcq)
    (setId { st with seq := some s' } id a, [blkLine s'.par a, statLine s'.tr])
  | .cal id n sz =>
    let a := pickFresh s.par
    let (s', _) := s.step (.calloc a n sz sidCal)
    (setId { st with seq := some s' } id a, [blkLine s'.par a, statLine s'.tr])
  | .re id new keep =>
    let p := addrOf st id
    let old := match s.par.get p with | some b => b.size | none => 0
    let dest := if p = 0 then pickFresh s.par else reallocDest s.par p old new keep
    let (s', r) := s.step (.realloc p old new dest sidRe)
    let a := match r with | .ptr a => a | _ => 0
    (setId { st with seq := some s' } id a, [blkLine s'.par a] ++ movedLine p a ++ [statLine s'.tr])
  | .rel id =>
    let (s', _) := s.step (.release (addrOf st id))
    (setId { st with seq := some s' } id 0, [statLine s'.tr])
  | .bytes => (st, [statLine s.tr])
  | .count => (st, [statLine s.tr])
  | .dump =>
    let (s', r) := s.step .dump
    let o := match r with | .dumped o => o | _ => none
    ({ st with seq := some s' }, dumpLines o ++ [statLine s'.tr])

/-! #### injected runs on the interleaving model -/

def toClient (st : St) (s : Seq) : Parsed → ClientOp
  | .acq _ sz => .acquire sz sidAcq
  | .cal _ n sz => .calloc n sz sidCal
  | .re id new _ =>
    let p := addrOf st id
    .realloc p (match s.par.get p with | some b => b.size | none => 0) new sidRe
  | .rel id => .release (addrOf st id)
  | .bytes => .bytes
  | .count => .count
  | .dump => .dump

def keepOf : Parsed → Bool
  | .re _ _ k => k
  | _ => false

def idOf : Parsed → Option String
  | .acq id _ | .cal id _ _ | .re id _ _ | .rel id => some id
  | _ => none

/-- the schedule point the harness sees *before* this action (only outside the mutex) -/
def pointBefore (lvl : Level) : PC → Option String
  | .trk .add .. => if lvl = .none then none else some "RMW"
  | .trk .stkLock .. | .trk .putLock .. | .ro .lock _ => some "LOCK"
  | .unt .lock .. => if lvl = .none then none else some "LOCK"
  | .ro .load _ => if lvl = .none then none else some "LOAD"
  | _ => none

/-- … and right *after* it (the mutex has just been released) -/
def pointAfter : PC → Option String
  | .trk .stkUnlock .. | .trk .putUnlock .. | .unt .unlock .. | .ro .unlock _ => some "UNLOCK"
  | _ => none

def oracleFor (sh : Sh) (keep : Bool) : PC → Addr
  | .parRealloc a old new _ => if a = 0 then pickFresh sh.par else reallocDest sh.par a old new keep
  | .parAcq .. => pickFresh sh.par
  | _ => 0        -- no other action consults the wrapped allocator

/-- run pool entry `i` to completion without interruption; returns the address it hands to the client -/
def finish (keep : Bool) (i : Nat) : Nat → Sys → Addr → Sys × Addr
  | 0, s, r => (s, r)
  | fuel + 1, s, r =>
    match s.pool[i]? with
    | none | some .done => (s, r)
    | some pc =>
      let r := match pc with | .trk _ a .. => a | _ => r
      finish keep i fuel (step s (.step i (oracleFor s.sh keep pc))) r

/-- cross-check of the two semantics: the same call run action by action, alone, on the
interleaving model must end in the state the sequential model computes -/
def stepSemAgrees (st : St) (s s' : Seq) (p : Parsed) : Bool :=
  let owned := s.par.blocks.map (fun e => (e.1, e.2.size))     -- every live block is held by the client between calls
  let sys0 : Sys := { sh := { tr := s.tr, par := s.par, lock := false, owned := owned }, pool := [] }
  let sys1 := AwsVerif.MemTrace.step sys0 (.start (toClient st s p))
  let (sys2, _) := finish (keepOf p) 0 64 sys1 0
  sys2.sh.tr.allocated == s'.tr.allocated && sys2.sh.tr.allocs == s'.tr.allocs && sys2.sh.tr.stacks == s'.tr.stacks
    && sys2.sh.tr.clock == s'.tr.clock
    && sys2.sh.par.blocks.map (fun e => (e.1, e.2.size, e.2.cap)) == s'.par.blocks.map (fun e => (e.1, e.2.size, e.2.cap))
    && sys2.sh.par.blocks.head? == s'.par.blocks.head?      -- (a call touches the contents of the front block only)
    && !sys2.sh.lock
    && sys2.pool.all (· == .done)

structure Inj where
  kind : String
  nth : Nat
  op : Parsed

/-- lines printed by a completed operation (same shape as `plain`) -/
def opLines (p : Parsed) (s : Sys) (old ret : Addr) (dumpBefore : Option DumpOut) : List String :=
  match p with
  | .re .. => [blkLine s.sh.par ret] ++ movedLine old ret ++ [statLine s.sh.tr]
  | .acq .. | .cal .. => [blkLine s.sh.par ret, statLine s.sh.tr]
  | .dump => dumpLines dumpBefore ++ [statLine s.sh.tr]
  | _ => [statLine s.sh.tr]

structure Run where
  sys : Sys
  st : St
  seen : List (String × Nat) := []     -- occurrences of each point kind so far
  fired : Bool := false
  out : List String := []
  dump : Option DumpOut := none        -- what the main operation, if it is a dump, reads under the mutex

def bump (seen : List (String × Nat)) (k : String) : List (String × Nat) × Nat :=
  let n := (seen.lookup k).getD 0 + 1
  ((k, n) :: seen.filter (·.1 != k), n)

/-- at a schedule point: run the injected operation if this is the point asked for -/
def atPoint (r : Run) (inj : Inj) (seqNow : Seq) (k : String) : Run :=
  let (seen, n) := bump r.seen k
  let r := { r with seen := seen }
  if r.fired || k != inj.kind || n != inj.nth then r else
  let st := r.st
  if refused st inj.op then { r with fired := true, out := r.out ++ ["P @inj refused"] } else
  let cop := toClient st seqNow inj.op
  let j := r.sys.pool.length
  let s1 := step r.sys (.start cop)
  let d := s1.sh.tr.dumpOut
  let (s2, ret) := finish (keepOf inj.op) j 64 s1 0
  let ret := match inj.op with | .rel _ => 0 | _ => ret
  let st := match idOf inj.op with | some id => setId st id ret | none => st
  { r with sys := s2, st := st, fired := true,
           out := r.out ++ (opLines inj.op s2 (match idOf inj.op with | some id => addrOf r.st id | none => 0) ret d).map (fun l => (l.take 1).toString ++ " @inj" ++ (l.drop 1).toString) }

def mainLoop (inj : Inj) (keep : Bool) : Nat → Run → Addr → Run × Addr
  | 0, r, a => (r, a)
  | fuel + 1, r, a =>
    match (r.sys.pool[0]? : Option PC) with
    | none | some .done => (r, a)
    | some pc =>
      let lvl := r.sys.sh.tr.level
      let seqNow : Seq := { tr := r.sys.sh.tr, par := r.sys.sh.par }
      let r := match pointBefore lvl pc with | some k => atPoint r inj seqNow k | none => r
      let a := match pc with | .trk _ x .. => x | _ => a
      let r := match pc with | .ro .read .dump => { r with dump := some r.sys.sh.tr.dumpWork } | _ => r
      let sys := step r.sys (.step 0 (oracleFor r.sys.sh keep pc))
      let r := { r with sys := sys }
      let seqNow : Seq := { tr := sys.sh.tr, par := sys.sh.par }
      let r := match pointAfter pc with | some k => atPoint r inj seqNow k | none => r
      mainLoop inj keep fuel r a

def injected (st : St) (s : Seq) (main : Parsed) (inj : Inj) : St × List String :=
  let oldMain := match idOf main with | some id => addrOf st id | none => 0
  let owned := s.par.blocks.map (fun e => (e.1, e.2.size))
  let sys0 : Sys := { sh := { tr := s.tr, par := s.par, lock := false, owned := owned }, pool := [] }
  let cop := toClient st s main
  let sys1 := step sys0 (.start cop)
  let (r, ret) := mainLoop inj (keepOf main) 64 { sys := sys1, st := st } 0
  let ret := match main with | .rel _ => 0 | _ => ret
  let st := match idOf main with | some id => setId r.st id ret | none => r.st
  -- the dump reads the tables while it holds the mutex: what it prints is the state at that action
  let d := r.dump
  let st := { st with seq := some { tr := r.sys.sh.tr, par := r.sys.sh.par } }
  (st, r.out ++ (if r.fired then [] else ["P @inj unreached"]) ++ opLines main r.sys oldMain ret d)

def parseLevel : String → Option Level
  | "none" => some .none | "bytes" => some .bytes | "stacks" => some .stacks | _ => none

/-- configuration of the wrapped allocator: which optional vtable entries it has -/
def parseCfg : String → Option (Bool × Bool)
  | "full" => some (true, true) | "norealloc" => some (false, true)
  | "nocalloc" => some (true, false) | "minimal" => some (false, false) | _ => none

def newTracer (st : St) (lvl frames cfg : String) : St × List String :=
  match st.seq, parseLevel lvl, parseSize? frames, parseCfg cfg with
  | none, some lvl, some f, some (hr, hc) =>
    let s := Seq.new lvl f { blocks := [], hasRealloc := hr, hasCalloc := hc } st.bt
    ({ st with seq := some s, ids := [], inj := none, bt := true }, [statLine s.tr])
  | _, _, _, _ => ({ st with bt := true }, ["bad-op"])

def step (st : St) (t : List String) : St × List String :=
  match t with
  | ["new", lvl, frames] => newTracer st lvl frames "full"
  | ["new", lvl, frames, cfg] => newTracer st lvl frames cfg
  -- the platform variant without <execinfo.h>: aws_backtrace() returns 0
  | ["new", lvl, frames, cfg, "nobt"] => newTracer { st with bt := false } lvl frames cfg
  | ["depth", _] => (st, [])
  -- harness-side fault injection (the tracer's timestamp read fails k times): timestamps are not abstract
  -- state, a failed read is no reason to lose the record, so the model does nothing
  | ["clock_fail", k] => if (parseSize? k).isSome then (st, []) else (st, ["bad-op"])
  | ["destroy"] =>
    match st.seq with
    | some s => ({ st with seq := none, ids := [], inj := none }, [s!"P destroy wrapped=ok client_blocks={s.par.blocks.length} bookkeeping=0 parent_after=0"])
    | none => (st, ["bad-op"])
  | "inject" :: kind :: n :: rest =>
    match st.seq, n.toNat?, parseOp rest with
    | some _, some n, some _ =>
      if kind ∈ ["RMW", "LOCK", "UNLOCK", "LOAD"] then ({ st with inj := some (kind, n, rest) }, []) else (st, ["bad-op"])
    | _, _, _ => (st, ["bad-op"])
  | ["fill", id, seed] =>
    match st.seq, seed.toNat? with
    | some s, some seed =>
      let a := addrOf st id
      if a = 0 then (st, ["bad-op"]) else
      let (s', _) := s.step (.fill a seed)
      ({ st with seq := some s' }, [blkLine s'.par a])
    | _, _ => (st, ["bad-op"])
  | _ =>
    match st.seq, parseOp t with
    | some s, some p =>
      if refused st p then ({ st with inj := none }, ["bad-op"]) else
      match st.inj with
      | none =>
        let (st', out) := plain st s p
        let ok := match st'.seq with | some s' => stepSemAgrees st s s' p | none => false
        (st', if ok then out else out ++ ["W step-semantics and sequential semantics disagree"])
      | some (kind, n, itoks) =>
        match parseOp itoks with
        | some ip => injected { st with inj := none } s p { kind := kind, nth := n, op := ip }
        | none => ({ st with inj := none }, ["bad-op"])
    | _, _ => (st, ["bad-op"])

def component : Component := { σ := St, init := {}, step := step }
end Driver.MemTraceD
