import Driver.Util
import AwsVerif.Gen.MathDispatch
import AwsVerif.Model.MathAsm
/-! Separate executable (`awsmath`) for C16 so that a generated layer that no longer compiles cannot
take the drivers of the other properties down with it. -/
namespace Driver.MathD
open Driver AwsVerif

def showRes : CSem.Res → String
  | .ok v => s!"ok {v}"
  | .err c => s!"err {c}"

def asm (f : String) (a : List Nat) : Option String :=
  let m64 := 2^64; let m32 := 2^32
  match f, a with
  | "aws_mul_u64_saturating", [x, y] => some s!"val {MathAsm.aws_mul_u64_saturating (x % m64) (y % m64)}"
  | "aws_mul_u64_checked", [x, y] => some (showRes (MathAsm.aws_mul_u64_checked (x % m64) (y % m64)))
  | "aws_mul_u32_saturating", [x, y] => some s!"val {MathAsm.aws_mul_u32_saturating (x % m32) (y % m32)}"
  | "aws_mul_u32_checked", [x, y] => some (showRes (MathAsm.aws_mul_u32_checked (x % m32) (y % m32)))
  | "aws_add_u64_saturating", [x, y] => some s!"val {MathAsm.aws_add_u64_saturating (x % m64) (y % m64)}"
  | "aws_add_u64_checked", [x, y] => some (showRes (MathAsm.aws_add_u64_checked (x % m64) (y % m64)))
  | "aws_add_u32_saturating", [x, y] => some s!"val {MathAsm.aws_add_u32_saturating (x % m32) (y % m32)}"
  | "aws_add_u32_checked", [x, y] => some (showRes (MathAsm.aws_add_u32_checked (x % m32) (y % m32)))
  | _, _ => none

def step (s : Unit) (t : List String) : Unit × List String :=
  match t with
  | "m" :: v :: f :: args =>
    match args.mapM parseU64? with
    | none => (s, ["bad-op"])
    | some a =>
      let r := if v == "ax" then asm f a else AwsVerif.Gen.MathDispatch.dispatch v f a
      match r with
      | some x => (s, ["P " ++ x])
      | none => (s, ["bad-op"])
  | "addv" :: num :: args =>
    -- aws_add_size_checked_varargs(num, &r, args...): all listed arguments are passed, the first `num` count
    match parseU64? num, args.mapM parseU64? with
    | some k, some a =>
      if k > a.length || a.length > 10 then (s, ["bad-op"])
      else match AwsVerif.Gen.MathDispatch.dispatchVarargs "aws_add_size_checked_varargs" k a with
        | some x => (s, ["P " ++ x])
        | none => (s, ["bad-op"])
    | _, _ => (s, ["bad-op"])
  | _ => (s, ["bad-op"])

def component : Component := { σ := Unit, init := (), step := step }
end Driver.MathD

def main (_ : List String) : IO UInt32 := do
  let stdin ← IO.getStdin
  let stdout ← IO.getStdout
  Driver.runLoop Driver.MathD.component stdin stdout ()
  return 0
