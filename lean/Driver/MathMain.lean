import Driver.Util
import AwsVerif.Gen.MathDispatch
import AwsVerif.Model.MathAsm
/-! Separate executable (`awsmath`) for C16 so that a generated layer that no longer compiles cannot
take the drivers of the other properties down with it. -/
namespace Driver.MathD
open Driver AwsVerif

def showRes : CSem.Res → String
  | .ok v => s!"ok {v}"
  | .err c => s!"err {c}"

def asmVal (f : String) (x y : Nat) : Option Nat :=
  let m64 := 2^64; let m32 := 2^32
  match f with
  | "aws_mul_u64_saturating" => some (MathAsm.aws_mul_u64_saturating (x % m64) (y % m64))
  | "aws_mul_u32_saturating" => some (MathAsm.aws_mul_u32_saturating (x % m32) (y % m32))
  | "aws_add_u64_saturating" => some (MathAsm.aws_add_u64_saturating (x % m64) (y % m64))
  | "aws_add_u32_saturating" => some (MathAsm.aws_add_u32_saturating (x % m32) (y % m32))
  | _ => none

def asmRes (f : String) (x y : Nat) : Option CSem.Res :=
  let m64 := 2^64; let m32 := 2^32
  match f with
  | "aws_mul_u64_checked" => some (MathAsm.aws_mul_u64_checked (x % m64) (y % m64))
  | "aws_mul_u32_checked" => some (MathAsm.aws_mul_u32_checked (x % m32) (y % m32))
  | "aws_add_u64_checked" => some (MathAsm.aws_add_u64_checked (x % m64) (y % m64))
  | "aws_add_u32_checked" => some (MathAsm.aws_add_u32_checked (x % m32) (y % m32))
  | _ => none

/-- the assembly variant; `f@ctx` is the same function called in another context of the C harness
(`store`: result of `f a b`; `sum`: `f a b + f b a`; `acc`: `f a b + f b a + f a b`, all mod 2^64) -/
def asm (fc : String) (a : List Nat) : Option String :=
  let (f, ctx) := match fc.splitOn "@" with
    | [f] => (f, "")
    | [f, c] => (f, c)
    | _ => ("", "?")
  match a with
  | [x, y] =>
    let comb (v1 v2 : Nat) : Option Nat :=
      match ctx with
      | "" => some v1
      | "store" => some v1
      | "sum" => some ((v1 + v2) % 2^64)
      | "acc" => some ((v1 + v2 + v1) % 2^64)
      | _ => none
    match asmVal f x y, asmVal f y x with
    | some v1, some v2 => (comb v1 v2).map (fun v => s!"val {v}")
    | _, _ =>
      match asmRes f x y, asmRes f y x with
      | some r1, some r2 =>
        if ctx == "" || ctx == "store" then some (showRes r1)
        else match r1, r2 with
          | .ok v1, .ok v2 => (comb v1 v2).map (fun v => s!"ok {v}")
          | .err c, _ => if ctx == "sum" || ctx == "acc" then some (showRes (.err c)) else none
          | _, .err c => if ctx == "sum" || ctx == "acc" then some (showRes (.err c)) else none
      | _, _ => none
  | _ => none

def step (s : Unit) (t : List String) : Unit × List String :=
  match t with
  | "m" :: v :: f :: args =>
    match args.mapM parseU64? with
    | none => (s, ["bad-op"])
    | some a =>
      let r := if v == "ax" then asm f a else AwsVerif.Gen.MathDispatch.dispatch v f a
      match r with
      | some x => (s, ["P " ++ x])
      | none => (s, ["bad-op"])
  | "addv" :: num :: args =>
    -- aws_add_size_checked_varargs(num, &r, args...): all listed arguments are passed, the first `num` count
    match parseU64? num, args.mapM parseU64? with
    | some k, some a =>
      if k > a.length || a.length > 10 then (s, ["bad-op"])
      else match AwsVerif.Gen.MathDispatch.dispatchVarargs "aws_add_size_checked_varargs" k a with
        | some x => (s, ["P " ++ x])
        | none => (s, ["bad-op"])
    | _, _ => (s, ["bad-op"])
  | _ => (s, ["bad-op"])

def component : Component := { σ := Unit, init := (), step := step }
end Driver.MathD

def main (_ : List String) : IO UInt32 := do
  let stdin ← IO.getStdin
  let stdout ← IO.getStdout
  Driver.runLoop Driver.MathD.component stdin stdout ()
  return 0
