import Driver.Util
import AwsVerif.Model.Xml
/-! op `xml <maxdepth> <hex doc> <prog>`; see harness/xml.c for the language and the output lines. -/
namespace Driver.XmlD
open AwsVerif.Xml Driver

/-- action letter ↦ (action, the callback ignores a failing traverse); `D` = descend, discard the result, return 0 -/
def actOf? : String → Option (Action × Bool)
  | "d" => some (.descend, false) | "b" => some (.body, false) | "s" => some (.skip, false) | "a" => some (.abort, false)
  | "D" => some (.descend, true)
  | _ => none

/-- `/` ↦ [], `/0/2` ↦ [0,2] -/
def pathOf? (s : String) : Option (List Nat) :=
  if s == "/" then some [] else
  match s.splitOn "/" with
  | "" :: rest => rest.mapM (fun x => x.toNat?)
  | _ => none

def parseProg? (s : String) : Option (Prog × (List Nat → Bool) × Bool) :=
  match s.splitOn "," with
  | [] => none
  | d :: es => do
    let dflt ← actOf? d
    let tbl ← es.mapM (fun e => match e.splitOn ":" with
      | [p, a] => do let p ← pathOf? p; let a ← actOf? a; pure (p, a)
      | _ => none)
    let look := fun (path : List Nat) => match tbl.find? (·.1 == path) with | some (_, a) => a | none => dflt
    pure (fun path => (look path).1, fun path => (look path).2, dflt.2 || tbl.any (·.2.2))

def errName : Err → String
  | .none => "AWS_ERROR_SUCCESS"
  | .invalidXml => "AWS_ERROR_INVALID_XML"
  | .matchNotFound => "AWS_ERROR_STRING_MATCH_NOT_FOUND"
  | .shortBuffer => "AWS_ERROR_SHORT_BUFFER"
  | .listExceeds => "AWS_ERROR_LIST_EXCEEDS_MAX_SIZE"
  | .userAbort => "AWS_ERROR_INVALID_ARGUMENT"

def showView : View → String
  | none => " null"
  | some c => s!" {c.off}:{c.len}"

def showEvent (doc : Bytes) (e : Event) : List String :=
  [s!"P node d={e.path.length + 1} name={hexOf (viewBytes doc (some e.name))} na={e.attrs.length}"] ++
  e.attrs.map (fun a => s!"P attr {hexOf (viewBytes doc a.name)} {hexOf (viewBytes doc a.value)}") ++
  [s!"W stack={e.depth} views" ++ showView (some e.name) ++ String.join (e.attrs.map (fun a => showView a.name ++ showView a.value))] ++
  (match e.body with
   | some b => [s!"P body {hexOf (viewBytes doc b)}", "W bodyv" ++ showView b]
   | none => [])

def showResult (doc : Bytes) : Except Fault Result → List String
  | .error (.oob i) => [s!"P MODEL-FAULT oob {i}"]
  | .error .fuel => ["P MODEL-FAULT fuel"]
  | .ok r => (r.events.map (showEvent doc)).flatten ++
      [if r.ok then "P rc OK" else s!"P rc ERR {errName r.lastErr}"]

def step (_ : Unit) (t : List String) : Unit × List String :=
  match t with
  | ["xml", md, d, p] =>
    match parseSize? md, parseHex? d, parseProg? p with
    | some md, some doc, some (prog, ign, anyIgn) =>
      -- programs without `D` run the function the theorems are about
      let ls := showResult doc (if anyIgn then parseIgn doc prog ign md else parse doc prog md)
      -- an empty document is parsed a second time as {NULL,0}
      ((), if doc.isEmpty then ls ++ ["W nulldoc"] ++ ls else ls)
    | _, _, _ => ((), ["bad-op"])
  -- parametrised large documents: the harness checks them against their generating parameters itself
  -- (harness/xml.c `s_xmlnest`, `s_xmlhuge`); the list model is not run on them
  | ["xmlnest", n, nm, mode] =>
    match parseSize? n, parseHex? nm with
    | some _, some _ => ((), if mode == "s" || mode == "b" then ["P xmlnest ok"] else ["bad-op"])
    | _, _ => ((), ["bad-op"])
  | ["xmlhuge", n] =>
    match parseSize? n with
    | some _ => ((), ["P xmlhuge ok"])
    | none => ((), ["bad-op"])
  | _ => ((), ["bad-op"])

def component : Component := { σ := Unit, init := (), step := step }
end Driver.XmlD
