import Driver.Util
import AwsVerif.Model.Codec
import AwsVerif.Model.CodecAvx2
/-! C05 driver: op language of `harness/codec.c` interpreted on `Model/Codec.lean`.
The model describes the portable path; the harness runs every op through the portable build and
through the vector build, so each result is printed once per build name with identical content
(that the two C builds agree is part of the property). -/
namespace Driver.CodecD
open AwsVerif.Codec Driver

def builds : List String := ["portable", "vector"]

def rcName : Option Err → String
  | none => "OK"
  | some e => e.name

def wDesc (off : Nat) (wr : List UInt8) : String :=
  if wr.isEmpty then "w=none" else s!"w={off}+{wr.length}"

def outLines (op b : String) (o : Out) : List String :=
  match o.err with
  | none => [s!"P {op} {b} rc=OK len={o.len} {wDesc o.off o.wr} out={hexOf o.wr}"]
  | some e => [s!"P {op} {b} rc={e.name} len={o.len}", s!"W {op} {b} {wDesc o.off o.wr} out={hexOf o.wr}"]

/-- property-level agreement of two calls: verdict, `len`, and on success the stored bytes -/
def sameOut (a b : Out) : Bool :=
  a.err == b.err && a.len == b.len && (a.err.isSome || (a.off == b.off && a.wr == b.wr))

/-- lines for a call: `portable` from the model of encoding.c, `vector` from the model of the path taken
when AVX2 is available (for hex: the same function); the failure path may already have stored bytes (W line) -/
def showOut2 (op : String) (p v : Out) : List String :=
  outLines op "portable" p ++ outLines op "vector" v ++ [s!"P {op} same={if sameOut p v then 1 else 0}"]

/-- base64 ops run through a third C build as well: the AVX2 file compiled without `_mm256_extract_epi64`
(`harness/codec_avx2_noext.c`); the model of the vector path describes both configurations -/
def showOut3 (op : String) (p v : Out) : List String :=
  outLines op "portable" p ++ outLines op "vector" v ++ outLines op "vector-noext" v ++
    [s!"P {op} same={if sameOut p v then 1 else 0}"]

def showOut (op : String) (o : Out) : List String := showOut2 op o o

def showLen (op : String) (r : Except Err Nat) : List String :=
  builds.map (fun b => match r with
    | .ok v => s!"P {op} {b} rc=OK v={v}"
    | .error e => s!"P {op} {b} rc={e.name} v=-") ++ [s!"P {op} same=1"]

def showChecks (op : String) (r : Except Err Nat) (outLen : Nat) : List String :=
  builds.map (fun b => match r with
    | .ok _ => s!"P {op} {b} rc=OK-unexpected len={outLen}"
    | .error e => s!"P {op} {b} rc={e.name} len={outLen}") ++ [s!"P {op} same=1"]

def cpsStr (cps : List Nat) : String :=
  if cps.isEmpty then "-" else ",".intercalate (cps.map (fun n => String.ofList (Nat.toDigits 16 n)))

/-- per build: the decoder with a recording callback, then the decoder created without callback -/
def showU8 (op : String) (e : Option Err) (cps : List Nat) (eNoCb : Option Err) : List String :=
  (builds.map (fun b => [s!"P {op} {b} rc={rcName e} cps={cpsStr cps}", s!"P {op} {b} nocb=1 rc={rcName eNoCb}"])).flatten ++
    [s!"P {op} same=1"]

def stopName : Option Stop → String
  | none => "OK"
  | some (.err e) => e.name
  | some .callback => "AWS_ERROR_INVALID_ARGUMENT"      -- what the harness callback raises when told to fail

/-- callback installed and failing on its `k`-th call -/
def showU8Fail (op : String) (k : Nat) (r : Option Stop × List Nat) : List String :=
  builds.map (fun b => s!"P {op} {b} failcb={k} rc={stopName r.1} cps={cpsStr r.2}")

/-- `u8all`: the harness runs every chunking in both callback modes and reports the one-shot
result; by `c05_utf8_chunking` / `c05_utf8_chunking_nocb` the model has nothing else to say -/
def showU8All (x : List UInt8) : List String :=
  let (e, cps) := decodeUtf8 x
  let en := decodeUtf8NoCb x
  let n := if x.length == 0 then 1 else 2 ^ (x.length - 1)
  (builds.map (fun b => [s!"P u8all {b} rc={rcName e} cps={cpsStr cps} chunkings={n} chunkdep=0",
                         s!"P u8all {b} nocb=1 rc={rcName en} chunkdep=0",
                         s!"P u8all {b} failcb=0 rc={stopName (decodeUtf8Fail 0 x).1} cps={cpsStr (decodeUtf8Fail 0 x).2} chunkdep=0",
                         s!"P u8all {b} failcb=1 rc={stopName (decodeUtf8Fail 1 x).1} cps={cpsStr (decodeUtf8Fail 1 x).2} chunkdep=0"])).flatten ++
    ["P u8all same=1"]

def parseChunks : List String → Option (List (List UInt8))
  | [] => some []
  | s :: r => do let c ← parseHex? s; let cs ← parseChunks r; pure (c :: cs)

/-- the persistent decoders: (with callback, without callback) -/
abbrev St := Option (Utf8 × Utf8)

def step (s : St) (t : List String) : St × List String :=
  let bad := (s, ["bad-op"])
  match t with
  | ["b64enc", x, l, c] => match parseHex? x, parseSize? l, parseSize? c with
    | some x, some l, some c => if c > 16777216 then bad else (s, showOut3 "b64enc" (base64Encode x l c) (AwsVerif.CodecAvx2.base64EncodeAvx2 x l c))
    | _, _, _ => bad
  | ["b64dec", x, l, c] => match parseHex? x, parseSize? l, parseSize? c with
    | some x, some l, some c => if c > 16777216 then bad else (s, showOut3 "b64dec" (base64Decode x l c) (AwsVerif.CodecAvx2.base64DecodeAvx2 x l c))
    | _, _, _ => bad
  | ["hexenc", x, l, c] => match parseHex? x, parseSize? l, parseSize? c with
    | some x, some l, some c => if c > 16777216 then bad else (s, showOut "hexenc" (hexEncode x l c))
    | _, _, _ => bad
  | ["hexdec", x, l, c] => match parseHex? x, parseSize? l, parseSize? c with
    | some x, some l, some c => if c > 16777216 then bad else (s, showOut "hexdec" (hexDecode x l c))
    | _, _, _ => bad
  | ["hexencdyn", x, l, c] => match parseHex? x, parseSize? l, parseSize? c with
    | some x, some l, some c =>
      if c > 16777216 || l > c then bad else
      let (o, cap') := hexEncodeAppendDynamic x l c
      let ls := showOut "hexencdyn" o
      (s, ls ++ builds.map (fun b => s!"W hexencdyn {b} cap={cap'}"))
    | _, _, _ => bad
  | ["b64enclen", n] => match parseSize? n with
    | some n => (s, showLen "b64enclen" (computeEncodedLen n))
    | none => bad
  | ["b64declen", x] => match parseHex? x with
    | some x => (s, showLen "b64declen" (computeDecodedLen x))
    | none => bad
  | ["hexenclen", n] => match parseSize? n with
    | some n => (s, showLen "hexenclen" (hexComputeEncodedLen n))
    | none => bad
  | ["hexdeclen", n] => match parseSize? n with
    | some n => (s, showLen "hexdeclen" (hexComputeDecodedLen n))
    | none => bad
  | ["b64enchuge", n, l, c] => match parseSize? n, parseSize? l, parseSize? c with
    | some n, some l, some c => (s, showChecks "b64enchuge" (base64EncodeChecks n l c) l)
    | _, _, _ => bad
  | ["hexenchuge", n, l, c] => match parseSize? n, parseSize? l, parseSize? c with
    | some n, some l, some c => (s, showChecks "hexenchuge" (hexEncodeChecks n c) l)
    | _, _, _ => bad
  | ["hexdechuge", n, l, c] => match parseSize? n, parseSize? l, parseSize? c with
    | some n, some l, some c => (s, showChecks "hexdechuge" (hexDecodeChecks n c) l)
    | _, _, _ => bad
  | ["hexdynhuge", n, l, c] => match parseSize? n, parseSize? l, parseSize? c with
    | some n, some l, some c =>
      (s, showChecks "hexdynhuge" ((hexEncodeAppendDynamicChecks n l c).map (·.1)) l)
    | _, _, _ => bad
  | "u8" :: chunks => match parseChunks chunks with
    | some cs => let (e, cps) := runChunks Utf8.init cs; (s, showU8 "u8" e cps (runChunksNoCb Utf8.init cs))
    | none => bad
  | ["u8one", x] => match parseHex? x with
    | some x => let (e, cps) := decodeUtf8 x; (s, showU8 "u8one" e cps (decodeUtf8NoCb x))
    | none => bad
  | "u8f" :: k :: chunks => match k.toNat?, parseChunks chunks with
    | some k, some cs => (s, showU8Fail "u8f" k (runChunksFail k Utf8.init cs) ++ ["P u8f same=1"])
    | _, _ => bad
  | ["u8all", x] => match parseHex? x with
    | some x => if x.length > 16 then bad else (s, showU8All x)
    | none => bad
  | ["u8new"] => (some (Utf8.init, Utf8.init), [])
  | ["u8upd", x] => match s, parseHex? x with
    | some (d, dn), some x =>
      let (d', e, cps) := update d x
      let (dn', en) := updateNoCb dn x
      (some (d', dn'), showU8 "u8upd" e cps en)
    | _, _ => bad
  | ["u8fin"] => match s with
    | some (d, dn) =>
      let (d', e) := finalize d
      let (dn', en) := finalize dn
      (some (d', dn'), showU8 "u8fin" e [] en)
    | none => bad
  | ["u8reset"] => match s with
    | some _ => (some (Utf8.init, Utf8.init), [])
    | none => bad
  | _ => bad

def component : Component := { σ := St, init := none, step := step }
end Driver.CodecD
