import Driver.Util
import AwsVerif.Model.Ring
namespace Driver.RingD
open AwsVerif.Ring Driver

def showRes : Res → List String
  | .ok off len => [s!"P acq OK len={len}", s!"W off={off}", "P belongs=100"]   -- granted buffer inside, foreign / straddling not
  | .oom => ["P acq AWS_ERROR_OOM", "P dest_untouched=1"]           -- c15_refusal_leaves_dest
  | .invalid => ["P acq AWS_ERROR_INVALID_ARGUMENT", "P dest_untouched=1"]

def rels (r : Ring) : Nat → Ring
  | 0 => r
  | k+1 => rels (release r) k

/-- atomic accesses of one acquire call: tail load, head load, then the stores of the branch taken -/
def events (before : Ring) (tl : Nat) (res : Res) : String :=
  match res with
  | .invalid => "-"
  -- with the memory order of each access: tail load-acquire (2) / store-release (3), head relaxed (0)
  | .oom => "Lt2Lh0"
  | .ok _ _ => if before.head = tl then "Lt2Lh0Sh0St3" else "Lt2Lh0Sh0"

/-- `aws_ring_buffer_is_valid` after the call: true in every reachable state (`c15_is_valid_holds`) -/
def validLine : String := "P valid=1"

/-- validity, and `aws_ring_buffer_is_empty` = `head == tail` (true iff nothing outstanding: `c15_is_empty_iff`) -/
def stateLines (r : Ring) : List String := [validLine, s!"P empty={if r.head = r.tail then 1 else 0}"]

/-- `k` releases injected before atomic access number `p` of the call: `p = 0` is before the tail load (the acquirer
sees them), `p ≥ 1` is after it (the acquirer decides on the stale tail; the releases only store `tail`, which the
acquirer no longer reads, so their position behind the tail load does not matter). -/
def doAcquire (r : Ring) (k p : Nat) (argsInvalid : Bool) (f : Ring → Nat → Ring × Res) : Ring × List String :=
  if argsInvalid then
    -- the argument check precedes every atomic access; pending releases happen after the call
    let (r', res) := f r r.tail
    let r'' := rels r' k
    (r'', [s!"W ev={events r r.tail res}"] ++ showRes res ++ [s!"P outstanding={r''.out.length}"] ++ stateLines r'')
  else
    let r0 := if p = 0 then rels r k else r
    let tl := r0.tail
    let r1 := if p = 0 then r0 else rels r0 k
    let (r', res) := f r1 tl
    (r', [s!"W ev={events r1 tl res}"] ++ showRes res ++ [s!"P outstanding={r'.out.length}"] ++ stateLines r')

def isLiveTok (d : String) : Bool := d.startsWith "live" && ((d.drop 4).toString.toNat?).isSome

def step (s : Option Ring) (t : List String) : Option Ring × List String :=
  match s, t with
  -- `initbig`: the harness only reserves the storage; for the model a ring of that size is a ring of that size
  | _, ["initbig", n] => match parseSize? n with
    | some n => (some (init n), stateLines (init n))
    | none => (s, ["bad-op"])
  | _, ["init", n] => match parseSize? n with
    | some n => (some (init n), stateLines (init n))
    | none => (s, ["bad-op"])
  | some r, ["acq", k, p, q] => match k.toNat?, p.toNat?, parseSize? q with
    | some k, some p, some q =>
      let (r', ls) := doAcquire r k p (q = 0) (fun r t => acquireWith r t q)
      (some r', ls)
    | _, _, _ => (s, ["bad-op"])
  | some r, ["upto", k, p, m, q] => match k.toNat?, p.toNat?, parseSize? m, parseSize? q with
    | some k, some p, some m, some q =>
      let (r', ls) := doAcquire r k p (q = 0 ∨ m = 0) (fun r t => acquireUpToWith r t m q)
      (some r', ls)
    | _, _, _, _ => (s, ["bad-op"])
  -- optional last token `live<j>`: which caller handle is passed as dest; irrelevant to the model (a grant is
  -- queued as usual, a refusal leaves dest untouched)
  | some r, ["acq", k, p, q, d] => if isLiveTok d then step (some r) ["acq", k, p, q] else (s, ["bad-op"])
  | some r, ["upto", k, p, m, q, d] => if isLiveTok d then step (some r) ["upto", k, p, m, q] else (s, ["bad-op"])
  | some r, ["rel"] =>
    let r' := release r
    (some r', (if r.out.isEmpty then [] else ["W relorder=3"]) ++ [s!"P outstanding={r'.out.length}"] ++ stateLines r')
  | _, _ => (s, ["bad-op"])

def component : Component := { σ := Option Ring, init := none, step := step }
end Driver.RingD
