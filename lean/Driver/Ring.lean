import Driver.Util
import AwsVerif.Model.Ring
namespace Driver.RingD
open AwsVerif.Ring Driver

def showRes : Res → List String
  | .ok off len => [s!"P acq OK len={len}", s!"W off={off}"]
  | .oom => ["P acq AWS_ERROR_OOM"]
  | .invalid => ["P acq AWS_ERROR_INVALID_ARGUMENT"]

def rels (r : Ring) : Nat → Ring
  | 0 => r
  | k+1 => rels (release r) k

def step (s : Option Ring) (t : List String) : Option Ring × List String :=
  match s, t with
  | _, ["init", n] => match parseSize? n with
    | some n => (some (init n), [])
    | none => (s, ["bad-op"])
  | some r, ["acq", k, q] => match k.toNat?, parseSize? q with
    | some k, some q =>
      let tl := r.tail
      let (r', res) := acquireWith (if q = 0 then r else rels r k) tl q
      (some r', showRes res ++ [s!"P outstanding={r'.out.length}"])
    | _, _ => (s, ["bad-op"])
  | some r, ["upto", k, m, q] => match k.toNat?, parseSize? m, parseSize? q with
    | some k, some m, some q =>
      let tl := r.tail
      let (r', res) := acquireUpToWith (if q = 0 ∨ m = 0 then r else rels r k) tl m q
      (some r', showRes res ++ [s!"P outstanding={r'.out.length}"])
    | _, _, _ => (s, ["bad-op"])
  | some r, ["rel"] => let r' := release r; (some r', [s!"P outstanding={r'.out.length}"])
  | _, _ => (s, ["bad-op"])

def component : Component := { σ := Option Ring, init := none, step := step }
end Driver.RingD
