/-! Line-protocol helpers shared by all component drivers (core Lean only). -/
namespace Driver

def SIZE_MAX : Nat := 2^64 - 1

def toks (line : String) : List String := line.trimAscii.toString.splitOn " "

/-- sizes: decimal, or MAX, MAX-k, HALF, HALF+k, HALF-k -/
def parseSize? (s : String) : Option Nat :=
  let withBase (base : Nat) (r : String) : Option Nat :=
    if r.isEmpty then some base
    else if r.startsWith "+" then (r.drop 1).toString.toNat?.map (base + ·)
    else if r.startsWith "-" then (r.drop 1).toString.toNat?.map (base - ·)
    else none
  if s.startsWith "MAX" then withBase SIZE_MAX (s.drop 3).toString
  else if s.startsWith "HALF" then withBase (SIZE_MAX / 2) (s.drop 4).toString
  else s.toNat?

def hexVal? (c : Char) : Option Nat :=
  if '0' ≤ c ∧ c ≤ '9' then some (c.toNat - '0'.toNat)
  else if 'a' ≤ c ∧ c ≤ 'f' then some (c.toNat - 'a'.toNat + 10)
  else if 'A' ≤ c ∧ c ≤ 'F' then some (c.toNat - 'A'.toNat + 10)
  else none

def parseHexNat? (s : String) : Option Nat :=
  s.toList.foldl (fun acc c => do let a ← acc; let v ← hexVal? c; pure (a * 16 + v)) (some 0)

def parseU64? (s : String) : Option Nat :=
  if s.startsWith "0x" then parseHexNat? (s.drop 2).toString else parseSize? s

def parseInt? (s : String) : Option Int :=
  if s.startsWith "-" then (s.drop 1).toString.toNat?.map (fun n => - (Int.ofNat n)) else s.toNat?.map Int.ofNat

/-- "-" is the empty byte string -/
def parseHex? (s : String) : Option (List UInt8) :=
  if s == "-" then some [] else
  let rec go : List Char → Option (List UInt8)
    | [] => some []
    | [_] => none
    | a :: b :: r => do
      let x ← hexVal? a; let y ← hexVal? b; let t ← go r
      pure (UInt8.ofNat (x * 16 + y) :: t)
  go s.toList

def hexDigit (n : Nat) : Char := if n < 10 then Char.ofNat (48 + n) else Char.ofNat (87 + n)

def hexOf (bs : List UInt8) : String :=
  if bs.isEmpty then "-" else
  String.ofList (bs.foldr (fun b acc => hexDigit (b.toNat / 16) :: hexDigit (b.toNat % 16) :: acc) [])

/-- A component driver: a state, a reset value, and a step on a tokenised line producing output lines. -/
structure Component where
  σ : Type
  init : σ
  step : σ → List String → σ × List String

partial def runLoop (c : Component) (h : IO.FS.Stream) (out : IO.FS.Stream) (s : c.σ) : IO Unit := do
  let line ← h.getLine
  if line.isEmpty then return ()
  let t := toks line
  match t with
  | [""] => runLoop c h out s
  | "case" :: n :: _ =>
    out.putStrLn s!"case {n}"
    runLoop c h out c.init
  | _ =>
    if line.startsWith "#" then runLoop c h out s else
    let (s', ls) := c.step s t
    for l in ls do out.putStrLn l
    runLoop c h out s'

end Driver
