import Driver.Util
import AwsVerif.Model.Json
/-! C11 driver: interprets the json op language on `AwsVerif.Json` (see harness/json.c for the
same interpreter over the real API).  libc number formatting is not modelled: the plug-in supplies
`hint_tok <bits> <token>` / `hint_val <token> <bits>` lines (ignored by the harness) that
instantiate the model's uninterpreted `NumEnv`; `compare_double` is evaluated on native doubles. -/
namespace Driver.JsonD
open AwsVerif.Json Driver

structure St where
  slots : List (String × JVal) := []
  toks : List (UInt64 × Bytes) := []
  vals : List (Bytes × UInt64) := []
  /-- output byte buffers: content and the (offset, length) of every JSON document appended -/
  bufs : List (String × Bytes × List (Nat × Nat)) := []

def compareDouble (a b : UInt64) : Bool :=
  let x := Float.ofBits a
  let y := Float.ofBits b
  let ax := Float.abs x
  let ay := Float.abs y
  let m := if ax > ay then ax else ay
  Float.abs (x - y) <= m * Float.ofBits 0x3CB0000000000000   -- DBL_EPSILON = 2^-52

def St.env (s : St) : NumEnv where
  tok := fun b => match s.toks.find? (·.1 == b) with | some p => p.2 | none => [63]
  strtod := fun t => match s.vals.find? (·.1 == t) with | some p => p.2 | none => 0x7ff8000000000bad
  cmp := compareDouble

def St.get? (s : St) (n : String) : Option JVal := (s.slots.find? (·.1 == n)).map (·.2)
def St.del (s : St) (n : String) : St := { s with slots := s.slots.filter (·.1 != n) }
def St.set (s : St) (n : String) (v : JVal) : St := { s.del n with slots := (n, v) :: (s.del n).slots }

def hex16 (b : UInt64) : String :=
  String.ofList ((List.range 16).map fun i => hexDigit ((b.toNat >>> (4 * (15 - i))) % 16))

def hexB (b : Bytes) : String := hexOf b

mutual
def dump : JVal → String
  | .null => "z"
  | .bool true => "t"
  | .bool false => "f"
  | .num n => "n" ++ hex16 n.bits
  | .str s => "s" ++ hexB s
  | .arr xs => "[" ++ dumpElems xs ++ "]"
  | .obj ms => "{" ++ dumpMembers ms ++ "}"
def dumpElems : List JVal → String
  | [] => ""
  | x :: r => dump x ++ (if r.isEmpty then "" else ",") ++ dumpElems r
def dumpMembers : List (Bytes × JVal) → String
  | [] => ""
  | (k, v) :: r => hexB k ++ ":" ++ dump v ++ (if r.isEmpty then "" else ",") ++ dumpMembers r
end

/-- `name/k<hex>/i<n>/…`: a slot and a path of getter steps into it (a borrowed pointer) -/
def parseStep? (t : String) : Option Step :=
  if t.startsWith "k" then (parseHex? (t.drop 1).toString).map (fun b => Step.key (cstr b))
  else if t.startsWith "i" then (parseSize? (t.drop 1).toString).map Step.idx
  else none

def rroot (r : String) : String := (r.splitOn "/").headD ""

def rpath? (r : String) : Option (List Step) := ((r.splitOn "/").drop 1).mapM parseStep?

def rget (s : St) (r : String) : Option JVal :=
  match s.get? (rroot r), rpath? r with
  | some root, some p => match getAt root p with
    | .ok v => some v
    | .error _ => none
  | _, _ => none

def rset (s : St) (r : String) (v' : JVal) : St :=
  match s.get? (rroot r), rpath? r with
  | some root, some p => s.set (rroot r) (setAt root p v')
  | _, _ => s

def errName : Err → String
  | .invalidArgument => "AWS_ERROR_INVALID_ARGUMENT"
  | .invalidIndex => "AWS_ERROR_INVALID_INDEX"
  | .plain => "NONE"

def parseBits? (s : String) : Option UInt64 :=
  if s.length != 16 then none else (parseHexNat? s).map UInt64.ofNat

def parseFmt? : String → Option Bool
  | "compact" => some false
  | "formatted" => some true
  | _ => none

def typeLine (v : JVal) : String :=
  let b (x : Bool) := if x then "1" else "0"
  let gs := match getString v with | .ok s => hexB s | .error e => errName e
  let gn := match getNumber v with | .ok n => hex16 n | .error e => errName e
  let gb := match getBoolean v with | .ok x => b x | .error e => errName e
  s!"P type s={b (isString v)} n={b (isNumber v)} a={b (isArray v)} b={b (isBoolean v)} z={b (isNull v)} o={b (isObject v)} gs={gs} gn={gn} gb={gb}"

def step (s : St) (t : List String) : St × List String :=
  let bad := (s, ["bad-op"])
  match t with
  | ["new_obj", x] => (s.set x (.obj []), [])
  | ["new_arr", x] => (s.set x (.arr []), [])
  | ["null", x] => (s.set x .null, [])
  | ["bool", x, b] => if b == "1" then (s.set x (.bool true), []) else if b == "0" then (s.set x (.bool false), []) else bad
  | ["str", x, h] => match parseHex? h with
    | some bs => (s.set x (newString bs), [])
    | none => bad
  | ["num_i", x, n] => match parseInt? n with
    | some n => if n.natAbs < 2 ^ 53 then (s.set x (newNumber (bitsOfInt n)), []) else bad
    | none => bad
  | ["num_bits", x, h] => match parseBits? h with
    | some b => (s.set x (newNumber b), [])
    | none => bad
  | ["hint_tok", b, h] => match parseBits? b, parseHex? h with
    | some b, some tk => ({ s with toks := (b, tk) :: s.toks }, [])
    | _, _ => bad
  | ["hint_val", h, b] => match parseHex? h, parseBits? b with
    | some tk, some b => ({ s with vals := (tk, b) :: s.vals }, [])
    | _, _ => bad
  | ["add", o, k, v] => match rget s o, parseHex? k, s.get? v with
    | some ov, some kb, some vv =>
      if rroot o == v then bad else
      match addToObject ov (cstr kb) vv with
      | .ok o' => (rset (s.del v) o o', ["P add OK"])
      | .error e => (s, [s!"P add ERR {errName e}"])
    | _, _, _ => bad
  | ["arr_add", a, v] => match rget s a, s.get? v with
    | some av, some vv =>
      if rroot a == v then bad else
      match addArrayElement av vv with
      | .ok a' => (rset (s.del v) a a', ["P arr_add OK"])
      | .error e => (s, [s!"P arr_add ERR {errName e}"])
    | _, _ => bad
  | ["get", o, k] => match rget s o, parseHex? k with
    | some ov, some kb => match getFromObject ov (cstr kb) with
      | .ok v => (s, [s!"P get {dump v}"])
      | .error e => (s, [s!"P get NULL {errName e}"])
    | _, _ => bad
  | ["dupget", o, k, d] => match rget s o, parseHex? k with
    | some ov, some kb =>
      if rroot o == d || d.contains '/' then bad else
      match getFromObject ov (cstr kb) with
      | .ok v => (s.set d (duplicate v), ["P dupget OK"])
      | .error e => (s, [s!"P dupget NULL {errName e}"])
    | _, _ => bad
  | ["has", o, k] => match rget s o, parseHex? k with
    | some ov, some kb => (s, [s!"P has {if hasKey ov (cstr kb) then 1 else 0}"])
    | _, _ => bad
  | ["remove", o, k] => match rget s o, parseHex? k with
    | some ov, some kb => match removeFromObject ov (cstr kb) with
      | .ok o' => (rset s o o', ["P remove OK"])
      | .error e => (s, [s!"P remove ERR {errName e}"])
    | _, _ => bad
  | ["arr_get", a, i] => match rget s a, parseSize? i with
    | some av, some i => match getArrayElement av i with
      | .ok v => (s, [s!"P arr_get {dump v}"])
      | .error e => (s, [s!"P arr_get NULL {errName e}"])
    | _, _ => bad
  | ["dupat", a, i, d] => match rget s a, parseSize? i with
    | some av, some i =>
      if rroot a == d || d.contains '/' then bad else
      match getArrayElement av i with
      | .ok v => (s.set d (duplicate v), ["P dupat OK"])
      | .error e => (s, [s!"P dupat NULL {errName e}"])
    | _, _ => bad
  | ["arr_remove", a, i] => match rget s a, parseSize? i with
    | some av, some i => match removeArrayElement av i with
      | .ok a' => (rset s a a', ["P arr_remove OK"])
      | .error e => (s, [s!"P arr_remove ERR {errName e}"])
    | _, _ => bad
  | ["arr_size", a] => match rget s a with
    | some av => match arraySize av with
      | .ok n => (s, [s!"P arr_size {n} NONE"])
      | .error e => (s, [s!"P arr_size 0 {errName e}"])
    | _ => bad
  | ["dup", a, d] => match rget s a with
    | some av => if rroot a == d || d.contains '/' then bad else (s.set d (duplicate av), ["P dup OK"])
    | none => bad
  | ["cmp", a, b, cs] => match rget s a, rget s b with
    | some av, some bv =>
      if cs != "0" && cs != "1" then bad else
      (s, [s!"P cmp {if compare s.env (cs == "1") av bv then 1 else 0}"])
    | _, _ => bad
  | ["print", a, f] => match rget s a, parseFmt? f with
    | some av, some fmt => (s, [s!"W text {hexB (printText s.env fmt av)}"])
    | _, _ => bad
  | ["reparse", a, f, d] => match rget s a, parseFmt? f with
    | some av, some fmt =>
      if rroot a == d || d.contains '/' then bad else
      match parseTextS s.env (printText s.env fmt av) with
      | some v => (s.set d v, ["P reparse OK"])
      | none => (s.del d, ["P reparse NULL"])
    | _, _ => bad
  | ["parse", d, h] => match (if d.contains '/' then none else parseHex? h) with
    | some bs => match parseTextS s.env bs with
      | some v => (s.set d v, ["P parse OK"])
      | none => (s.del d, ["P parse NULL"])
    | none => bad
  | ["dump", a] => match rget s a with
    | some av => (s, [s!"P dump {dump av}"])
    | none => bad
  | ["type", a] => match rget s a with
    | some av => (s, [typeLine av])
    | none => bad
  | ["destroy", a] => match s.get? a with
    | some _ => (s.del a, [])
    | none => bad
  | ["cstr_str", x, h] => match parseHex? h with
    | some bs => (s.set x (newString bs), [])
    | none => bad
  | ["reinit"] => if s.slots.isEmpty && s.bufs.isEmpty then (s, []) else bad
  | ["iter", a, st, fl] =>
    let opt (t : String) : Option (Option Nat) := if t == "-" then some none else t.toNat?.map some
    match rget s a, opt st, opt fl with
    | some av, some stop, some fail =>
      let showR (items : List String) (ok : Bool) : List String :=
        [s!"P iter {if ok then "OK" else "ERR NONE"} n={items.length} {",".intercalate items}"]
      match av with
      | .arr _ => match iterateArray av stop fail with
        | .ok (vs, ok) => (s, showR (vs.map dump) ok)
        | .error e => (s, [s!"P iter ERR {errName e} n=0 "])
      | _ => match iterateObject av stop fail with
        | .ok (ms, ok) => (s, showR (ms.map fun m => hexB m.1 ++ ":" ++ dump m.2) ok)
        | .error e => (s, [s!"P iter ERR {errName e} n=0 "])
    | _, _, _ => bad
  | ["buf", b, _cap, h] => match parseHex? h with
    | some pre => if b.contains '/' then bad else
      ({ s with bufs := (b, pre, []) :: s.bufs.filter (·.1 != b) }, [])
    | none => bad
  | ["bufappend", b, h] => match s.bufs.find? (·.1 == b), parseHex? h with
    | some (_, c, segs), some x => ({ s with bufs := (b, c ++ x, segs) :: s.bufs.filter (·.1 != b) }, [])
    | _, _ => bad
  | ["printinto", b, a, f] => match s.bufs.find? (·.1 == b), rget s a, parseFmt? f with
    | some (_, c, segs), some av, some fmt =>
      let t := printText s.env fmt av
      ({ s with bufs := (b, c ++ t, segs ++ [(c.length, t.length)]) :: s.bufs.filter (·.1 != b) },
       [s!"P appended {c.length} {c.length + t.length}"])
    | _, _, _ => bad
  | ["bufdump", b] => match s.bufs.find? (·.1 == b) with
    | some (_, c, _) => (s, [s!"P buf {hexB c}"])
    | none => bad
  | ["parseseg", b, k, d] => match s.bufs.find? (·.1 == b), k.toNat? with
    | some (_, c, segs), some k =>
      if d.contains '/' then bad else
      match segs[k]? with
      | some (off, len) =>
        match parseTextS s.env ((c.drop off).take len) with
        | some v => (s.set d v, ["P parseseg OK"])
        | none => (s.del d, ["P parseseg NULL"])
      | none => bad
    | _, _ => bad
  | ["end"] => ({}, ["P balance 0"])
  | _ => bad

def component : Component := { σ := St, init := {}, step := step }
end Driver.JsonD
