import Driver.Util
import Driver.Sba
/-! Separate executable (`awssba`) for C03: its model imports the generated math layer (`Gen/Math.lean`), which
must not be able to take the drivers of the other properties down when a changed source makes it uncompilable. -/
def main (_ : List String) : IO UInt32 := do
  let stdin ← IO.getStdin
  let stdout ← IO.getStdout
  Driver.runLoop Driver.SbaD.component stdin stdout Driver.SbaD.component.init
  return 0
