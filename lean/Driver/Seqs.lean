import Driver.Util
import AwsVerif.Model.ArrayList
import AwsVerif.Model.LinkedList
/-! Driver for C09: `al …` ops on `Model/ArrayList.lean`, `ll …` ops on `Model/LinkedList.lean`.
The op language and the output lines are described in `harness/seqs.c` (the C side of the same
protocol).  Preconditions that are fatal asserts / undefined in C (`P skip`) are decided here and
in the harness by the same ghost bookkeeping, never inside the model. -/
namespace Driver.SeqsD
open Driver
open AwsVerif

/-! ## shared rendering -/

def LIMIT : Nat := 65536
def NLISTS : Nat := 4
def NLL : Nat := 3
def NNODES : Nat := 8

def byteOf (b : ArrayList.Byte) : UInt8 := match b with | none => ArrayList.uninitByte | some x => x

def fnv (bs : List UInt8) : UInt64 :=
  bs.foldl (fun h b => (h ^^^ b.toUInt64) * 0x100000001b3) 0xcbf29ce484222325

def hex64 (x : UInt64) : String :=
  String.ofList ((List.range 16).map (fun i => hexDigit ((x.toNat >>> (4 * (15 - i))) % 16)))

def render (e : List ArrayList.Byte) : String :=
  let bs := e.map byteOf
  if bs.length ≤ 32 then hexOf bs else s!"#{bs.length}:{hex64 (fnv bs)}"

/-- `v<k>`: the element whose byte `i` is `(k*131 + i*29 + (i/128)*3) mod 256`; otherwise hex -/
def parseVal? (isz : Nat) (s : String) : Option (List UInt8) :=
  if s.startsWith "v" then
    match (s.drop 1).toString.toNat? with
    | some k => some ((List.range isz).map (fun i => UInt8.ofNat ((k * 131 + i * 29 + (i / 128) * 3) % 256)))
    | none => none
  else match parseHex? s with
    | some bs => if bs.length = isz then some bs else none
    | none => none

def errName : ArrayList.Err → String
  | .listEmpty => "AWS_ERROR_LIST_EMPTY"
  | .invalidIndex => "AWS_ERROR_INVALID_INDEX"
  | .overflow => "AWS_ERROR_OVERFLOW_DETECTED"
  | .exceedsMax => "AWS_ERROR_LIST_EXCEEDS_MAX_SIZE"
  | .staticCantShrink => "AWS_ERROR_LIST_STATIC_MODE_CANT_SHRINK"
  | .destTooSmall => "AWS_ERROR_DEST_COPY_TOO_SMALL"
  | .fault => "MODEL-FAULT"

def rcLine : ArrayList.Rc → String
  | .ok => "P rc=OK"
  | .err e => s!"P rc={errName e}"

/-! ## state -/

structure St where
  als   : List (Option ArrayList.AL)           -- NLISTS slots
  heap  : LinkedList.Heap
  linit : List Bool                            -- NLL lists initialised?
  wher  : List (Option Nat)                    -- NNODES: which list the node is in (ghost)
  leaked : Nat := 0                            -- blocks the array-list code dropped without releasing (allocator balance)
  dbg : Bool := false                          -- `mode debug`: the library is compiled with -DDEBUG_BUILD

def St.init : St :=
  { als := List.replicate NLISTS none, heap := LinkedList.emptyHeap,
    linit := List.replicate NLL false, wher := List.replicate NNODES none }

/-! ## array list -/

def parseL? (s : String) : Option Nat :=
  if s.startsWith "l" then
    match (s.drop 1).toString.toNat? with
    | some k => if k < NLISTS then some k else none
    | none => none
  else none

def getAL (s : St) (k : Nat) : Option ArrayList.AL := (s.als[k]?).join
def putAL (s : St) (k : Nat) (l : Option ArrayList.AL) : St := { s with als := s.als.set k l }

def stateLines (k : Nat) (l : ArrayList.AL) : List String :=
  [s!"P len l{k} {l.length}", s!"W cs l{k} {l.data.length} fnv={hex64 (fnv (l.data.map byteOf))}"] ++
  (if l.dyn then [] else [s!"P guard l{k} ok"])

/-- the harness refuses to ask the allocator for more than LIMIT bytes (aws_mem_acquire aborts on
failure): same decision here -/
def huge (l : ArrayList.AL) (index : Nat) : Bool :=
  l.dyn && index + 1 ≤ SIZE_MAX && (index + 1) * l.itemSize ≤ SIZE_MAX &&
    (index + 1) * l.itemSize > l.data.length && (index + 1) * l.itemSize > LIMIT

def valOut (r : Except ArrayList.Err (List ArrayList.Byte)) : List String :=
  match r with
  | .ok v => ["P rc=OK", s!"P val {render v}"]
  | .error e => [s!"P rc={errName e}"]

def valShort (r : Except ArrayList.Err (List ArrayList.Byte)) : String :=
  match r with
  | .ok v => render v
  | .error e => errName e

def dumpLines (k : Nat) (l : ArrayList.AL) : List String :=
  [s!"P len l{k} {l.length}", s!"W cap l{k} {l.capacity}"] ++
  (List.range l.length).map (fun i => s!"P e {i} {valShort (ArrayList.getAt l i)}") ++
  [s!"P front {valShort (ArrayList.front l)}", s!"P back {valShort (ArrayList.back l)}"]

/-! ### -DDEBUG_BUILD flavour of the library

With DEBUG_BUILD the array list poisons unused storage with `AWS_ARRAY_LIST_DEBUG_FILL` (0xDD): the whole block in
`init_dynamic` and `clear`, the grown part in `ensure_capacity`, the vacated tail in `pop_front_n`.  The theorems
are about the NDEBUG code; this overlay (used only after `mode debug`) reproduces the fills so that the
debug-flavour harness can be compared byte for byte, and pre/post-condition aborts become `skip`s. -/

def DD : ArrayList.Byte := some 0xDD

def fillRange (d : ArrayList.Region) (off n : Nat) : ArrayList.Region :=
  d.take off ++ List.replicate (min n (d.length - off)) DD ++ d.drop (off + n)

/-- `ensure_capacity` with the DEBUG fill of the new part (the fill sits inside `if (list->data)`: a list whose
`data` is NULL gets a fresh, unfilled block); on failure the list is returned unchanged -/
def dbgGrow (l : ArrayList.AL) (index : Nat) : ArrayList.AL :=
  match ArrayList.ensureCapacity l index with
  | .ok l' =>
    if l.data.length = 0 then l'
    else { l' with data := l.data ++ List.replicate (l'.data.length - l.data.length) DD }
  | .error _ => l

def dbgClear (l : ArrayList.AL) : ArrayList.AL :=
  if l.data.length ≠ 0 then { l with data := List.replicate l.data.length DD, length := 0 } else l

def dbgPopFrontN (l : ArrayList.AL) (n : Nat) : ArrayList.AL :=
  if n ≥ l.length then dbgClear l
  else if n > 0 then
    let r := (ArrayList.popFrontN l n).1
    { r with data := fillRange r.data ((l.length - n) * l.itemSize) (n * l.itemSize) }
  else l

/-- an op on one list that yields (new list, rc) -/
def mut1 (s : St) (k : Nat) (r : ArrayList.AL × ArrayList.Rc) : St × List String :=
  (putAL s k (some r.1), rcLine r.2 :: stateLines k r.1)

def alStep (s : St) (t : List String) : St × List String :=
  match t with
  | ["balance"] =>
    -- every list is cleaned up; what is still live was dropped by the library without a release
    ({ s with als := List.replicate NLISTS none, leaked := 0 }, [s!"P live={s.leaked}"])
  | ["fcap", cs, isz] =>
    match parseSize? cs, parseSize? isz with
    | some cs, some isz => if isz = 0 then (s, ["P skip"]) else (s, [s!"P cap={cs / isz}"])
    | _, _ => (s, ["bad-op"])
  | ["fvalid", len, cs, isz, dn] =>
    -- aws_array_list_is_valid on a forged structure
    match parseSize? len, parseSize? cs, parseSize? isz with
    | some len, some cs, some isz =>
      if dn ≠ "0" ∧ dn ≠ "1" then (s, ["bad-op"]) else
      (s, [s!"P valid {if ArrayList.isValidRaw len cs isz (dn == "1") then 1 else 0}"])
    | _, _, _ => (s, ["bad-op"])
  | ["init_full", ls, n, isz, k0] =>
    -- init_static_from_initialized over a raw array holding v<k0>, v<k0+1>, …
    match parseL? ls, parseSize? n, parseSize? isz, parseSize? k0 with
    | some k, some n, some isz, some k0 =>
      if isz = 0 ∨ n = 0 ∨ n > LIMIT ∨ isz > LIMIT ∨ n * isz > LIMIT ∨ k0 > LIMIT then (s, ["P skip"]) else
      let raw := ((List.range n).flatMap (fun i => ((parseVal? isz s!"v{k0 + i}").getD []))).map some
      match ArrayList.initStaticFromInitialized raw n isz with
      | .ok l => (putAL s k (some l), "P rc=OK" :: stateLines k l)
      | .error e => (putAL s k none, [s!"P rc={errName e}"])
    | _, _, _, _ => (s, ["bad-op"])
  | ["init_dyn", ls, n, isz] =>
    match parseL? ls, parseSize? n, parseSize? isz with
    | some k, some n, some isz =>
      if isz = 0 ∨ (n * isz ≤ SIZE_MAX ∧ n * isz > LIMIT) then (s, ["P skip"]) else
      match ArrayList.initDynamic n isz with
      | .ok l =>
        let l := if s.dbg then { l with data := List.replicate l.data.length DD } else l
        (putAL s k (some l), "P rc=OK" :: stateLines k l)
      | .error e => (putAL s k none, [s!"P rc={errName e}"])
    | _, _, _ => (s, ["bad-op"])
  | ["init_static", ls, n, isz] =>
    match parseL? ls, parseSize? n, parseSize? isz with
    | some k, some n, some isz =>
      if isz = 0 ∨ n = 0 ∨ n > LIMIT ∨ isz > LIMIT ∨ n * isz > LIMIT then (s, ["P skip"]) else
      match ArrayList.initStatic n isz with
      | .ok l => (putAL s k (some l), "P rc=OK" :: stateLines k l)
      | .error e => (putAL s k none, [s!"P rc={errName e}"])
    | _, _, _ => (s, ["bad-op"])
  | ["copy", fs, ts] =>
    match parseL? fs, parseL? ts with
    | some f, some k =>
      match getAL s f, getAL s k with
      | some lf, some lt =>
        if f = k ∨ lf.itemSize ≠ lt.itemSize ∨ lf.data.length = 0 then (s, ["P skip"])
        else mut1 s k (ArrayList.copy lf lt)
      | _, _ => (s, ["P skip"])
    | _, _ => (s, ["bad-op"])
  | ["swapc", as, bs] =>
    match parseL? as, parseL? bs with
    | some a, some b =>
      match getAL s a, getAL s b with
      | some la, some lb =>
        if a = b ∨ !la.dyn ∨ !lb.dyn ∨ la.itemSize ≠ lb.itemSize then (s, ["P skip"])
        else
          let r := ArrayList.swapContents la lb
          (putAL (putAL s a (some r.1.1)) b (some r.1.2), rcLine r.2 :: (stateLines a r.1.1 ++ stateLines b r.1.2))
      | _, _ => (s, ["P skip"])
    | _, _ => (s, ["bad-op"])
  | op :: ls :: args =>
    match parseL? ls with
    | none => (s, ["bad-op"])
    | some k =>
      if op = "clean" ∧ args = [] then (putAL s k none, ["P rc=OK", "P zeroed 1"]) else
      if op = "clean_secure" ∧ args = [] then
        -- dynamic storage is zeroed over all of current_size before it is released; caller's storage is left alone
        let sec := match getAL s k with
          | some l => if l.dyn ∧ l.data.length ≠ 0 then ["P secure ok"]
                      else if !l.dyn then [s!"W raw fnv={hex64 (fnv (l.data.map byteOf))}"] else ["P secure none"]
          | none => ["P secure none"]
        (putAL s k none, ["P rc=OK", "P zeroed 1"] ++ sec) else
      match getAL s k with
      | none =>
        if op ∈ ["push_back", "push_front", "set", "pop_back", "pop_front", "pop_front_n", "erase", "clear", "shrink",
                 "sort", "swap", "ensure", "calc", "front", "back", "get", "dump", "forged", "valid", "get_ptr"] then (s, ["P skip"])
        else (s, ["bad-op"])
      | some l =>
        match op, args with
        | "push_back", [v] =>
          match parseVal? l.itemSize v with
          | none => (s, ["bad-op"])
          | some v => if huge l l.length then (s, ["P skip"]) else
            mut1 s k (ArrayList.pushBack (if s.dbg then dbgGrow l l.length else l) v)
        | "push_front", [v] =>
          match parseVal? l.itemSize v with
          | none => (s, ["bad-op"])
          | some v => if huge l l.length then (s, ["P skip"]) else
            mut1 s k (ArrayList.pushFront (if s.dbg then dbgGrow l l.length else l) v)
        | "set", [i, v] =>
          match parseSize? i, parseVal? l.itemSize v with
          | some i, some v => if huge l i then (s, ["P skip"]) else
            mut1 s k (ArrayList.setAt (if s.dbg then dbgGrow l i else l) v i)
          | _, _ => (s, ["bad-op"])
        | "pop_back", [] => mut1 s k (ArrayList.popBack l)
        | "pop_front", [] =>
          if s.dbg ∧ l.length > 0 then mut1 s k (dbgPopFrontN l 1, .ok) else mut1 s k (ArrayList.popFront l)
        | "pop_front_n", [n] =>
          match parseSize? n with
          | some n => if s.dbg then mut1 s k (dbgPopFrontN l n, .ok) else mut1 s k (ArrayList.popFrontN l n)
          | none => (s, ["bad-op"])
        | "erase", [i] =>
          match parseSize? i with
          | some i =>
            if s.dbg ∧ i = 0 ∧ l.length > 0 then mut1 s k (dbgPopFrontN l 1, .ok) else mut1 s k (ArrayList.erase l i)
          | none => (s, ["bad-op"])
        | "clear", [] => mut1 s k (if s.dbg then dbgClear l else ArrayList.clear l, .ok)
        | "shrink", [] =>
          mut1 { s with leaked := s.leaked + (if ArrayList.shrinkLeaks l then 1 else 0) } k (ArrayList.shrinkToFit l)
        | "sort", [] => mut1 s k (ArrayList.sort l, .ok)
        | "swap", [a, b] =>
          match parseSize? a, parseSize? b with
          | some a, some b =>
            if a < l.length ∧ b < l.length then mut1 s k (ArrayList.swap l a b) else (s, ["P skip"])
          | _, _ => (s, ["bad-op"])
        | "ensure", [i] =>
          match parseSize? i with
          | some i =>
            if huge l i then (s, ["P skip"]) else
            match ArrayList.ensureCapacity l i with
            | .ok l' => mut1 s k (if s.dbg then dbgGrow l i else l', .ok)
            | .error e => mut1 s k (l, .err e)
          | none => (s, ["bad-op"])
        | "calc", [i] =>
          match parseSize? i with
          | some i =>
            match ArrayList.calcNecessarySize l.itemSize i with
            | .ok n => (s, ["P rc=OK", s!"P nec={n}"])
            | .error e => (s, [s!"P rc={errName e}"])
          | none => (s, ["bad-op"])
        | "front", [] => (s, valOut (ArrayList.front l))
        | "back", [] => (s, valOut (ArrayList.back l))
        | "get", [i] =>
          match parseSize? i with
          | some i => (s, valOut (ArrayList.getAt l i))
          | none => (s, ["bad-op"])
        | "dump", [] => (s, dumpLines k l)
        | "valid", [] => (s, [s!"P valid {if ArrayList.isValid l then 1 else 0}"])
        | "get_ptr", [i] =>
          match parseSize? i with
          | some i =>
            match ArrayList.getAtPtr l i with
            | .ok off => (s, ["P rc=OK", s!"P off={off}"] ++ (valOut (ArrayList.getAt l i)).drop 1)
            | .error e => (s, [s!"P rc={errName e}"])
          | none => (s, ["bad-op"])
        | "forged", flen :: rest =>
          match parseSize? flen with
          | none => (s, ["bad-op"])
          | some flen =>
            if flen < 2^32 ∨ l.data.length = 0 ∨ s.dbg then (s, ["P skip"]) else
            let lf := { l with length := flen }
            let fin (r : ArrayList.AL × ArrayList.Rc) : St × List String :=
              let l' := { r.1 with length := l.length }
              (putAL s k (some l'), rcLine r.2 :: stateLines k l')
            match rest with
            | ["push_back", v] =>
              match parseVal? l.itemSize v with
              | none => (s, ["bad-op"])
              | some v => if huge lf flen then (s, ["P skip"]) else fin (ArrayList.pushBack lf v)
            | ["push_front", v] =>
              match parseVal? l.itemSize v with
              | none => (s, ["bad-op"])
              | some v => if huge lf flen then (s, ["P skip"]) else fin (ArrayList.pushFront lf v)
            | ["shrink"] => fin (ArrayList.shrinkToFit lf)
            | _ => (s, ["bad-op"])
        | _, _ => (s, ["bad-op"])
  | _ => (s, ["bad-op"])

/-! ## linked list -/

def headId (j : Nat) : Nat := 100 + 2 * j
def tailId (j : Nat) : Nat := 101 + 2 * j
def llOf (j : Nat) : LinkedList.LL := ⟨headId j, tailId j⟩

def nameOf (p : Option Nat) : String :=
  match p with
  | none => "null"
  | some k =>
    if k < NNODES then s!"n{k}"
    else if 100 ≤ k ∧ k < 100 + 2 * NLL then
      (if (k - 100) % 2 = 0 then s!"L{(k - 100) / 2}.h" else s!"L{(k - 100) / 2}.t")
    else "?"

def parseList? (s : String) : Option Nat :=
  if s.startsWith "L" then
    match (s.drop 1).toString.toNat? with
    | some k => if k < NLL then some k else none
    | none => none
  else none

def parseNode? (s : String) : Option Nat :=
  if s.startsWith "n" then
    match (s.drop 1).toString.toNat? with
    | some k => if k < NNODES then some k else none
    | none => none
  else none

inductive Ref where
  | node (k : Nat)
  | hd (j : Nat)
  | tl (j : Nat)

def parseRef? (s : String) : Option Ref :=
  match parseNode? s with
  | some k => some (.node k)
  | none =>
    match s.splitOn "." with
    | [l, "h"] => (parseList? l).map .hd
    | [l, "t"] => (parseList? l).map .tl
    | _ => none

def isInit (s : St) (j : Nat) : Bool := (s.linit[j]?).getD false
def whereOf (s : St) (k : Nat) : Option Nat := (s.wher[k]?).join
def setWhere (s : St) (k : Nat) (w : Option Nat) : St := { s with wher := s.wher.set k w }
def countIn (s : St) (j : Nat) : Nat := (s.wher.filter (· == some j)).length

def namesLine (tag : String) (j : Nat) (r : Option (List Nat)) : String :=
  match r with
  | none => s!"P {tag} L{j} !broken"
  | some xs => xs.foldl (fun acc x => acc ++ " " ++ nameOf (some x)) s!"P {tag} L{j}"

def llState (s : St) : List String :=
  ((List.range NLL).filter (isInit s)).flatMap (fun j =>
    [namesLine "fwd" j (LinkedList.toList s.heap (llOf j) 12), namesLine "rev" j (LinkedList.toListRev s.heap (llOf j) 12),
     s!"P valid L{j} {if LinkedList.isValid s.heap (llOf j) then 1 else 0} {if LinkedList.isValidDeep s.heap (llOf j) 24 then 1 else 0} {if LinkedList.nodeIsInList s.heap (headId j) then 1 else 0} {if LinkedList.nodeIsInList s.heap (tailId j) then 1 else 0}"]) ++
  [(List.range NNODES).foldl (fun acc k => acc ++ (if LinkedList.nodeIsInList s.heap k then "1" else "0")) "P inl "] ++
  ((List.range NNODES).filter (fun k => (whereOf s k).isNone)).map (fun k =>
    s!"P det n{k} {nameOf (s.heap k).next} {nameOf (s.heap k).prev}")

def fin (s : St) (pre : List String) : St × List String := (s, pre ++ llState s)

/-- which list a reference belongs to (ghost), and its node id; `none` = not usable -/
def refId (s : St) (r : Ref) : Option (Nat × Nat) :=
  match r with
  | .node k => (whereOf s k).map (fun j => (k, j))
  | .hd j => if isInit s j then some (headId j, j) else none
  | .tl j => if isInit s j then some (tailId j, j) else none

def applyHeap (s : St) (r : Option LinkedList.Heap) (upd : St → St) (pre : List String) : St × List String :=
  match r with
  | none => (s, ["P MODEL-FAULT"])
  | some h => let s' := upd { s with heap := h }; fin s' pre

def llStep (s : St) (t : List String) : St × List String :=
  match t with
  | ["init", ls] =>
    match parseList? ls with
    | none => (s, ["bad-op"])
    | some j =>
      if isInit s j ∧ countIn s j ≠ 0 then (s, ["P skip"]) else
      fin { s with heap := LinkedList.init s.heap (llOf j), linit := s.linit.set j true } ["P ok"]
  | [op, ls, ns] =>
    if op = "push_back" ∨ op = "push_front" then
      match parseList? ls, parseNode? ns with
      | some j, some k =>
        if !isInit s j ∨ (whereOf s k).isSome then (s, ["P skip"]) else
        let r := if op = "push_back" then LinkedList.pushBack s.heap (llOf j) k else LinkedList.pushFront s.heap (llOf j) k
        applyHeap s r (fun s => setWhere s k (some j)) ["P ok"]
      | _, _ => (s, ["bad-op"])
    else if op = "insert_before" ∨ op = "insert_after" then
      match parseRef? ls, parseNode? ns with
      | some r, some k =>
        let bad : Bool := match r with
          | .hd _ => op == "insert_before"
          | .tl _ => op == "insert_after"
          | .node _ => false
        match refId s r with
        | none => (s, ["P skip"])
        | some (x, j) =>
          if bad ∨ (whereOf s k).isSome then (s, ["P skip"]) else
          let res := if op = "insert_before" then LinkedList.insertBefore s.heap x k else LinkedList.insertAfter s.heap x k
          applyHeap s res (fun s => setWhere s k (some j)) ["P ok"]
      | _, _ => (s, ["bad-op"])
    else if op = "fvalid" then
      -- aws_linked_list_is_valid with one sentinel field corrupted for the call
      match parseList? ls with
      | none => (s, ["bad-op"])
      | some j =>
        if !isInit s j then (s, ["P skip"]) else
        let h := s.heap
        let h' : Option LinkedList.Heap :=
          if ns = "hn" then some (LinkedList.setNext h (headId j) none)
          else if ns = "hp" then some (LinkedList.setPrev h (headId j) (some (tailId j)))
          else if ns = "tp" then some (LinkedList.setPrev h (tailId j) none)
          else if ns = "tn" then some (LinkedList.setNext h (tailId j) (some (headId j)))
          else none
        match h' with
        | none => (s, ["bad-op"])
        | some h' => (s, [s!"P fvalid {if LinkedList.isValid h' (llOf j) then 1 else 0}"])
    else if op = "fdeep" then
      -- aws_linked_list_is_valid_deep with the prev link of one member cut for the call
      match parseList? ls, parseNode? ns with
      | some j, some k =>
        if !isInit s j ∨ whereOf s k ≠ some j then (s, ["P skip"]) else
        (s, [s!"P fdeep {if LinkedList.isValidDeep (LinkedList.setPrev s.heap k none) (llOf j) 24 then 1 else 0}"])
      | _, _ => (s, ["bad-op"])
    else if op = "swap_nodes" then
      match parseNode? ls, parseNode? ns with
      | some a, some b =>
        if a = b ∧ s.dbg ∧ (whereOf s a).isNone then (s, ["P skip"]) else
        if a = b then applyHeap s (LinkedList.swapNodes s.heap a b) id ["P ok"] else
        match whereOf s a, whereOf s b with
        | some ja, some jb =>
          applyHeap s (LinkedList.swapNodes s.heap a b) (fun s => setWhere (setWhere s a (some jb)) b (some ja)) ["P ok"]
        | _, _ => (s, ["P skip"])
      | _, _ => (s, ["bad-op"])
    else if op = "swapc" ∨ op = "move_back" ∨ op = "move_front" then
      match parseList? ls, parseList? ns with
      | some a, some b =>
        if a = b ∨ !isInit s a ∨ !isInit s b then (s, ["P skip"]) else
        if op = "swapc" then
          applyHeap s (LinkedList.swapContents s.heap (llOf a) (llOf b))
            (fun s => { s with wher := s.wher.map (fun w => if w == some a then some b else if w == some b then some a else w) }) ["P ok"]
        else
          let r := if op = "move_back" then LinkedList.moveAllBack s.heap (llOf a) (llOf b)
                   else LinkedList.moveAllFront s.heap (llOf a) (llOf b)
          applyHeap s r (fun s => { s with wher := s.wher.map (fun w => if w == some b then some a else w) }) ["P ok"]
      | _, _ => (s, ["bad-op"])
    else (s, ["bad-op"])
  | ["probe", ns, as, bs] =>
    -- node_next_is_valid / node_prev_is_valid / node_is_in_list of a detached node whose links are set for the call
    let pr (t : String) : Option (Option Nat) :=
      if t = "null" then some none else
      match parseRef? t with
      | some (.node k) => some (some k)
      | some (.hd j) => some (some (headId j))
      | some (.tl j) => some (some (tailId j))
      | none => none
    match parseNode? ns, pr as, pr bs with
    | some k, some a, some b =>
      if (whereOf s k).isSome then (s, ["P skip"]) else
      let h := LinkedList.setNode s.heap k ⟨a, b⟩
      let bit (x : Bool) : Nat := if x then 1 else 0
      (s, [s!"P probe {bit (LinkedList.nodeNextIsValid h k)} {bit (LinkedList.nodePrevIsValid h k)} {bit (LinkedList.nodeIsInList h k)}"])
    | _, _, _ => (s, ["bad-op"])
  | [op, x] =>
    if op = "pop_back" ∨ op = "pop_front" then
      match parseList? x with
      | none => (s, ["bad-op"])
      | some j =>
        if !isInit s j ∨ countIn s j = 0 then (s, ["P skip"]) else
        let r := if op = "pop_back" then LinkedList.popBack s.heap (llOf j) else LinkedList.popFront s.heap (llOf j)
        match r with
        | none => (s, ["P MODEL-FAULT"])
        | some (h, n) =>
          let s' := { s with heap := h }
          let s' := if n < NNODES then setWhere s' n none else s'
          fin s' [s!"P pop {nameOf (some n)}"]
    else if op = "begin" ∨ op = "end" ∨ op = "rbegin" ∨ op = "rend" then
      match parseList? x with
      | none => (s, ["bad-op"])
      | some j =>
        if !isInit s j then (s, ["P skip"]) else
        let r := if op = "begin" then LinkedList.begin_ s.heap (llOf j) else if op = "end" then some (tailId j)
                 else if op = "rbegin" then LinkedList.rbegin s.heap (llOf j) else some (headId j)
        (s, [s!"P {op} {nameOf r}"])
    else if op = "fempty" then
      match parseList? x with
      | none => (s, ["bad-op"])
      | some j =>
        if !isInit s j then (s, ["P skip"]) else
        let h := LinkedList.setPrev s.heap (tailId j) (some (headId j))
        (s, [s!"P fempty {if LinkedList.empty h (llOf j) then 1 else 0}"])
    else if op = "remove" then
      match parseNode? x with
      | none => (s, ["bad-op"])
      | some k =>
        if (whereOf s k).isNone then (s, ["P skip"]) else
        applyHeap s (LinkedList.remove s.heap k) (fun s => setWhere s k none) ["P ok"]
    else if op = "empty" ∨ op = "front" ∨ op = "back" then
      match parseList? x with
      | none => (s, ["bad-op"])
      | some j =>
        if !isInit s j ∨ (s.dbg ∧ op ≠ "empty" ∧ countIn s j = 0) then (s, ["P skip"]) else
        if op = "empty" then (s, [s!"P empty {if LinkedList.empty s.heap (llOf j) then 1 else 0}"])
        else if op = "front" then (s, [s!"P front {nameOf (LinkedList.begin_ s.heap (llOf j))}"])
        else (s, [s!"P back {nameOf (LinkedList.rbegin s.heap (llOf j))}"])
    else if op = "next" ∨ op = "prev" then
      match parseRef? x with
      | none => (s, ["bad-op"])
      | some r =>
        let edge : Bool := match r with
          | .tl _ => op == "next"
          | .hd _ => op == "prev"
          | .node _ => false
        match refId s r with
        | none => (s, ["P skip"])
        | some (id, _) =>
          if s.dbg ∧ edge then (s, ["P skip"]) else
          if op = "next" then (s, [s!"P next {nameOf (LinkedList.next s.heap id)}"])
          else (s, [s!"P prev {nameOf (LinkedList.prev s.heap id)}"])
    else (s, ["bad-op"])
  | _ => (s, ["bad-op"])

def step (s : St) (t : List String) : St × List String :=
  match t with
  | "al" :: rest => alStep s rest
  | "ll" :: rest => llStep s rest
  | ["mode", "debug"] => ({ s with dbg := true }, ["P mode debug"])
  | _ => (s, ["bad-op"])

def component : Component := { σ := St, init := St.init, step := step }
end Driver.SeqsD
