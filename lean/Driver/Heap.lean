import Driver.Util
import AwsVerif.Model.Heap
/-! Driver for the priority-queue model (component `heap`).

Ops: `cmp three|bool|diff|lazy` (comparator style of the harness; all are `natCmp`) | `init dyn <default_size> <isz> <nh>` | `init static <cap> <isz> <nh>` | `push <key>` |
`pushref <key> h<k>` | `pop` | `top` | `remove h<k>` | `clear`.
After every op: the `P` result line, `P live` (uid under every in-queue handle), `W heap`, `W idx`. -/
namespace Driver.HeapD
open AwsVerif.Heap Driver

structure St where
  g   : G
  isz : Nat
  nh  : Nat
  /-- capacity of the container in items (`aws_array_list_ensure_capacity`: double, or exactly what is needed) -/
  ccap : Nat

def errName : Err → String
  | .empty => "AWS_ERROR_PRIORITY_QUEUE_EMPTY"
  | .badNode => "AWS_ERROR_PRIORITY_QUEUE_BAD_NODE"
  | .exceedsMax => "AWS_ERROR_LIST_EXCEEDS_MAX_SIZE"
  | .unsupported => "AWS_ERROR_UNSUPPORTED_OPERATION"
  | .invalidIndex => "AWS_ERROR_INVALID_INDEX"

/-- elements of fewer than 3 bytes carry no uid -/
def uidStr (isz : Nat) (e : Elem) : String := if isz < 3 then "-" else toString e.uid

def parseHandle? (s : String) : Option Nat :=
  if s.startsWith "h" then (s.drop 1).toString.toNat? else none

/-- replace the handle function by a table of its values on `0..nh-1` (same function there; keeps
lookups O(1) instead of a growing chain of updates) -/
def compact (s : St) : St :=
  let arr : Array (Option Nat) := (Array.range s.nh).map s.g.q.handles
  { s with g := { s.g with q := { s.g.q with handles := fun h => (arr[h]?).getD none } } }

def stateLines (s : St) : List String :=
  let q := s.g.q
  let live := (List.range s.nh).filterMap fun h =>
    match q.handles h with
    | some i => some s!" h{h}={match q.items[i]? with | some e => uidStr s.isz e | none => "?"}"
    | none => none
  let idx := (List.range s.nh).filterMap fun h =>
    match q.handles h with
    | some i => some s!" h{h}={i}"
    | none => none
  let heap := q.items.toList.map fun e => s!" {e.key}:{uidStr s.isz e}"
  [s!"P live{String.join live}", s!"W heap{String.join heap}", s!"W idx{String.join idx}", s!"W cap {s.ccap}"]

def resLine (s : St) (name : String) (r : Res) : String :=
  let sz := s.g.q.items.size
  match r with
  | .ok => s!"P {name} OK size={sz}"
  | .elem e => s!"P {name} OK key={e.key} uid={uidStr s.isz e} size={sz}"
  | .err er => s!"P {name} {errName er} size={sz}"

def doOp (s : St) (name : String) (op : Op) : Option St × List String :=
  let (g', r) := gstep natCmp s.g op
  let old := s.g.q.items.size
  let grown := g'.q.items.size > old ∧ s.g.q.cap.isNone ∧ s.ccap ≤ old
  let s' := compact { s with g := g', ccap := if grown then max (2 * s.ccap) (old + 1) else s.ccap }
  (some s', resLine s' name r :: stateLines s')

def step (s : Option St) (t : List String) : Option St × List String :=
  match s, t with
  | _, ["cmp", style] =>
    -- comparator style of the harness: every style is `pred(a, b) > 0 ↔ a > b` on keys, i.e. `natCmp`
    if style == "three" ∨ style == "bool" ∨ style == "diff" ∨ style == "lazy" then (s, []) else (s, ["bad-op"])
  | _, ["init", kind, n, isz, nh] =>
    match parseSize? n, isz.toNat?, nh.toNat? with
    | some n, some isz, some nh =>
      if isz = 0 ∨ nh > 64 then (s, ["bad-op"]) else
      if kind == "dyn" then (some ⟨G.init initDynamic, isz, nh, n⟩, [])
      else if kind == "static" then
        if n = 0 then (s, ["bad-op"]) else (some ⟨G.init (initStatic n), isz, nh, n⟩, [])
      else (s, ["bad-op"])
    | _, _, _ => (s, ["bad-op"])
  | some s, ["push", k] =>
    match k.toNat? with
    | some k => if k > 255 then (some s, ["bad-op"]) else doOp s "push" (.push k none)
    | none => (some s, ["bad-op"])
  | some s, ["pushref", k, h] =>
    match k.toNat?, parseHandle? h with
    | some k, some h =>
      if k ≤ 255 ∧ h < s.nh ∧ legalOp s.g (.push k (some h)) then doOp s "push" (.push k (some h)) else (some s, ["bad-op"])
    | _, _ => (some s, ["bad-op"])
  | some s, ["pop"] => doOp s "pop" .pop
  | some s, ["top"] => doOp s "top" .top
  | some s, ["remove", h] =>
    match parseHandle? h with
    | some h => if h < s.nh then doOp s "remove" (.remove h) else (some s, ["bad-op"])
    | none => (some s, ["bad-op"])
  | some s, ["clear"] => doOp s "clear" .clear
  | _, _ => (s, ["bad-op"])

def component : Component := { σ := Option St, init := none, step := step }
end Driver.HeapD
