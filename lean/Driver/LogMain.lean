import Driver.Util
import Driver.Log
/-! Separate executable (`awslog`) for C14: its model imports `Gen/LogClamp.lean`, a function translated from
log_formatter.c on every run, which must not be able to take the other drivers down. -/
def main (args : List String) : IO UInt32 := do
  let stdin ← IO.getStdin
  let stdout ← IO.getStdout
  match args with
  | ["logline"] => Driver.runLoop Driver.LogD.component stdin stdout Driver.LogD.component.init; return 0
  | ["logbg"] => Driver.runLoop Driver.LogD.bgComponent stdin stdout Driver.LogD.bgComponent.init; return 0
  | _ => IO.eprintln "usage: awslog logline|logbg < ops"; return 2
