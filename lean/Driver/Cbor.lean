import Driver.Util
import AwsVerif.Model.Cbor
/-! C10 driver: the op language of `harness/cbor.c` interpreted on `AwsVerif.Cbor`.

Encoder ops (no output): `u N`, `n N`, `f HEX16`, `text HEX`, `bytes HEX`,
`textr BB COUNT`, `bytesr BB COUNT`, `arr N`, `map N`, `tag N`, `bool 0|1`, `null`, `undef`,
`indef_bytes`, `indef_text`, `indef_arr`, `indef_map`, `brk`, `reset`.
`enc` prints the encoded bytes (`W enc`) and the buffer capacity (`W cap`).
`bigmode` (first op of a case): multi-MiB encoders; `enc` prints `W encsum len=… fnv=…` instead of the bytes, no decoder ops.
Decoder: `load` (decoder over the encoder's output; result lines are `P`), `dec HEX` / `dec NULL` (decoder over
raw bytes; every line is `W`), `decode_all` (= `load` + `all`), `all`, `peek`, `pop KIND`,
`consume`, `skip`, `rem`.  Errors are always `W` lines. -/
namespace Driver.CborD
open AwsVerif.Cbor Driver

/-- digest of an encoder too large to keep as a byte list (`bigmode`): length, running FNV-1a, capacity -/
structure Big where
  len : Nat := 0
  fnv : UInt64 := 0xcbf29ce484222325
  cap : Nat := 256

structure St where
  enc : Encoder := {}
  dec : Option Decoder := none
  raw : Bool := false
  big : Option Big := none

def hexN (width n : Nat) : String :=
  String.ofList ((List.range width).reverse.map (fun i => hexDigit (n / 16^i % 16)))

def fnv1a (bs : List UInt8) : UInt64 :=
  bs.foldl (fun h b => (h ^^^ b.toUInt64) * 0x100000001b3) 0xcbf29ce484222325

def showBytes (b : List UInt8) : String :=
  if b.length ≤ 64 then s!"{b.length} {hexOf b}" else s!"{b.length} fnv={hexN 16 (fnv1a b).toNat}"

def showItem : Item → String
  | .uint v => s!"uint {v.toNat}"
  | .negint v => s!"negint {v.toNat}"
  | .float b => s!"float {hexN 16 b.toNat}"
  | .bytes b => s!"bytes {showBytes b}"
  | .text b => s!"text {showBytes b}"
  | .arrayStart n => s!"array {n.toNat}"
  | .mapStart n => s!"map {n.toNat}"
  | .tag t => s!"tag {t.toNat}"
  | .bool b => s!"bool {if b then 1 else 0}"
  | .null => "null"
  | .undefined => "undef"
  | .brk => "break"
  | .indefBytesStart => "indef_bytes"
  | .indefTextStart => "indef_text"
  | .indefArrayStart => "indef_arr"
  | .indefMapStart => "indef_map"

def showTy : Ty → String
  | .uint => "uint" | .negint => "negint" | .float => "float" | .bytes => "bytes" | .text => "text"
  | .arrayStart => "array" | .mapStart => "map" | .tag => "tag" | .bool => "bool" | .null => "null"
  | .undefined => "undef" | .brk => "break" | .indefBytes => "indef_bytes" | .indefText => "indef_text"
  | .indefArray => "indef_arr" | .indefMap => "indef_map"

def errName : Err → String
  | .invalidCbor => "AWS_ERROR_INVALID_CBOR"
  | .unexpectedType => "AWS_ERROR_CBOR_UNEXPECTED_TYPE"
  | .outOfFuel => "MODEL_OUT_OF_FUEL"

def u64? (s : String) : Option UInt64 :=
  match parseU64? s with
  | some n => if n < 2^64 then some (UInt64.ofNat n) else none
  | none => none

/-- the encoder op as an item, if it is one -/
def itemOf? : List String → Option Item
  | ["u", v] => (u64? v).map .uint
  | ["n", v] => (u64? v).map .negint
  | ["f", h] => if h.length = 16 then (parseHexNat? h).map (fun n => .float (UInt64.ofNat n)) else none
  | ["text", "NULL"] => some (.text [])       -- the empty string as a {NULL, 0} cursor
  | ["bytes", "NULL"] => some (.bytes [])
  | ["text", h] => (parseHex? h).map .text
  | ["bytes", h] => (parseHex? h).map .bytes
  | ["textr", b, c] => match parseHexNat? b, c.toNat? with
    | some b, some c => if b < 256 then some (.text (List.replicate c (UInt8.ofNat b))) else none
    | _, _ => none
  | ["bytesr", b, c] => match parseHexNat? b, c.toNat? with
    | some b, some c => if b < 256 then some (.bytes (List.replicate c (UInt8.ofNat b))) else none
    | _, _ => none
  | ["arr", v] => (u64? v).map .arrayStart
  | ["map", v] => (u64? v).map .mapStart
  | ["tag", v] => (u64? v).map .tag
  | ["bool", "0"] => some (.bool false)
  | ["bool", "1"] => some (.bool true)
  | ["null"] => some .null
  | ["undef"] => some .undefined
  | ["indef_bytes"] => some .indefBytesStart
  | ["indef_text"] => some .indefTextStart
  | ["indef_arr"] => some .indefArrayStart
  | ["indef_map"] => some .indefMapStart
  | ["brk"] => some .brk
  | _ => none

def cls (raw : Bool) : String := if raw then "W" else "P"

/-- the harness's `all` loop (`acc` is built in reverse) -/
def allLoopRev (raw : Bool) : Nat → Decoder → List String → Decoder × List String
  | 0, d, acc => (d, s!"W err MODEL_OUT_OF_FUEL rem={d.src.length}" :: acc)
  | fuel + 1, d, acc =>
    if d.err.isNone ∧ d.src.isEmpty ∧ d.cache.isNone then (d, s!"{cls raw} end rem=0" :: acc)
    else
      match popAny d with
      | (d', .error e) => (d', s!"W err {errName e} rem={d'.src.length}" :: acc)
      | (d', .ok it) => allLoopRev raw fuel d' (s!"{cls raw} item {showItem it} rem={d'.src.length}" :: acc)

def allLoop (raw : Bool) (fuel : Nat) (d : Decoder) (acc : List String) : Decoder × List String :=
  let (d', r) := allLoopRev raw fuel d acc.reverse
  (d', r.reverse)

def popKind (kind : String) (d : Decoder) : Option (Decoder × Except Err Item) :=
  match kind with
  | "uint" => some (mapRes .uint (popWith selUint d))
  | "negint" => some (mapRes .negint (popWith selNegint d))
  | "float" => some (mapRes .float (popWith selFloat d))
  | "bytes" => some (mapRes .bytes (popWith selBytes d))
  | "text" => some (mapRes .text (popWith selText d))
  | "array" => some (mapRes .arrayStart (popWith selArray d))
  | "map" => some (mapRes .mapStart (popWith selMap d))
  | "tag" => some (mapRes .tag (popWith selTag d))
  | "bool" => some (mapRes .bool (popWith selBool d))
  | _ => none

def decStep (raw : Bool) (d : Decoder) (t : List String) : Option (Decoder × List String) :=
  match t with
  | ["all"] => some (allLoop raw (d.src.length + 2) d [])
  | ["peek"] =>
    (match peekType d with
     | (d', .ok ty) => some (d', [s!"{cls raw} peek {showTy ty} rem={d'.src.length}"])
     | (d', .error e) => some (d', [s!"W err {errName e} rem={d'.src.length}"]))
  | ["pop", kind] =>
    (match popKind kind d with
     | none => none
     | some (d', .ok it) => some (d', [s!"{cls raw} item {showItem it} rem={d'.src.length}"])
     | some (d', .error e) => some (d', [s!"W err {errName e} rem={d'.src.length}"]))
  | ["consume"] =>
    (match consumeWholeItem d with
     | (d', none) => some (d', [s!"{cls raw} consume OK rem={d'.src.length}"])
     | (d', some e) => some (d', [s!"W err {errName e} rem={d'.src.length}"]))
  | ["skip"] =>
    (match consumeSingle d with
     | (d', none) => some (d', [s!"{cls raw} skip OK rem={d'.src.length}"])
     | (d', some e) => some (d', [s!"W err {errName e} rem={d'.src.length}"]))
  | ["rem"] => some (d, [s!"{cls raw} rem={d.src.length}"])
  | _ => none

def fnvStep (h : UInt64) (b : UInt8) : UInt64 := (h ^^^ b.toUInt64) * 0x100000001b3

def fnvRep (b : UInt8) : Nat → UInt64 → UInt64
  | 0, h => h
  | n + 1, h => fnvRep b n (fnvStep h b)

/-- `bigmode`: the same encoder model (`encItem` / `encUint` heads, `reserveSmart`, `reserveLen`), folded into the digest;
a repeated-byte string is streamed instead of materialised.  Decoder ops are not available. -/
def bigStep (g : Big) (t : List String) : Option (Big × List String) :=
  let strOp (text : Bool) (b c : String) : Option (Big × List String) :=
    match parseHexNat? b, c.toNat? with
    | some b, some c =>
      if b < 256 then
        let head := encUint c (if text then 0x60 else 0x40)
        let h := fnvRep (UInt8.ofNat b) c (head.foldl fnvStep g.fnv)
        some ({ len := g.len + head.length + c, fnv := h, cap := reserveSmart g.cap g.len (9 + c) }, [])
      else none
    | _, _ => none
  match t with
  | ["textr", b, c] => strOp true b c
  | ["bytesr", b, c] => strOp false b c
  | ["reset"] => some ({ g with len := 0, fnv := 0xcbf29ce484222325 }, [])
  | ["enc"] => some (g, [s!"W encsum len={g.len} fnv={hexN 16 g.fnv.toNat}", s!"W cap {g.cap}"])
  | _ =>
    match itemOf? t with
    | some it =>
      let bs := encItem it
      some ({ len := g.len + bs.length, fnv := bs.foldl fnvStep g.fnv, cap := reserveSmart g.cap g.len (reserveLen it) }, [])
    | none => none

def step (s : St) (t : List String) : St × List String :=
  match s.big with
  | some g =>
    (match bigStep g t with
     | some (g', ls) => ({ s with big := some g' }, ls)
     | none => (s, ["bad-op"]))
  | none =>
  if t == ["bigmode"] then
    (if s.enc.buf.isEmpty ∧ s.dec.isNone then ({ s with big := some { cap := s.enc.cap } }, []) else (s, ["bad-op"]))
  else
  match itemOf? t with
  | some it => ({ s with enc := s.enc.write it }, [])
  | none =>
    match t with
    | ["reset"] =>
      let e : Encoder := ⟨[], s.enc.cap⟩
      ({ s with enc := e }, [])
    | ["enc"] => (s, [s!"W enc {hexOf s.enc.buf}", s!"W cap {s.enc.cap}"])
    | ["load"] => ({ s with dec := some (Decoder.new s.enc.buf), raw := false }, [])
    | ["dec", "NULL"] => ({ s with dec := some (Decoder.new []), raw := true }, [])
    | ["dec", h] =>
      (match parseHex? h with
       | some bs => ({ s with dec := some (Decoder.new bs), raw := true }, [])
       | none => (s, ["bad-op"]))
    | ["decode_all"] =>
      let d := Decoder.new s.enc.buf
      let (d', ls) := allLoop false (d.src.length + 2) d []
      ({ s with dec := some d', raw := false }, ls)
    | _ =>
      match s.dec with
      | none => (s, ["bad-op"])
      | some d =>
        match decStep s.raw d t with
        | some (d', ls) => ({ s with dec := some d' }, ls)
        | none => (s, ["bad-op"])

def component : Component := { σ := St, init := {}, step := step }
end Driver.CborD
