import Driver.Util
import AwsVerif.Model.DateTime
/-! Driver for the date-time model (C19).  Ops (an optional leading token `w` turns every output
line of the op into class `W`: used for inputs outside the property's domain):

* `fmt <secs> <rfc822|iso8601|iso8601_basic|auto> <full|short> [cap]`
* `parse <hex text> <rfc822|iso8601|iso8601_basic|auto>`
* `rt <secs> <fmt> <full|short> <parse fmt>`   format, then parse the text just produced
* `acc <secs> <ms>`     `aws_date_time_init_epoch_secs(secs + ms/1000.0)`, accessors and epoch views
* `millis <u64>`        `aws_date_time_init_epoch_millis`, accessors and epoch views
-/
namespace Driver.DateTimeD
open AwsVerif.DateTime Driver

def fmt? : String → Option Fmt
  | "rfc822" => some .rfc822
  | "iso8601" => some .iso8601
  | "iso8601_basic" => some .iso8601Basic
  | "auto" => some .autoDetect
  | _ => none

def short? : String → Option Bool
  | "full" => some false
  | "short" => some true
  | _ => none

def errName : Err → String
  | .invalidDateStr => "AWS_ERROR_INVALID_DATE_STR"
  | .overflowDetected => "AWS_ERROR_OVERFLOW_DETECTED"
  | .shortBuffer => "AWS_ERROR_SHORT_BUFFER"
  | .invalidArgument => "AWS_ERROR_INVALID_ARGUMENT"

def toBytes (l : List Byte) : List UInt8 := l.map UInt8.ofNat

def fields (dt : DateTime) : String :=
  s!"ts={dt.timestamp} ms={dt.millis} y={accYear dt} mon={accMonth dt} d={accMonthDay dt} wd={accDayOfWeek dt} " ++
  s!"h={accHour dt} mi={accMinute dt} s={accSecond dt}"

def hex16 (n : Nat) : String :=
  String.ofList ((List.range 16).reverse.map (fun i => hexDigit ((n >>> (4 * i)) % 16)))

def views (dt : DateTime) : String :=
  let d : Float := Float.ofInt dt.timestamp + Float.ofNat dt.millis / 1000.0
  s!"P views millis={asMillis dt} nanos={asNanos dt} secs={hex16 d.toBits.toNat}"

def showFmt (r : Except Err (List Byte)) : List String :=
  match r with
  | .ok t => [s!"P fmt OK {hexOf (toBytes t)}"]
  | .error e => [s!"P fmt {errName e}"]

def showParse (r : Except Err DateTime) : List String :=
  match r with
  | .ok dt => [s!"P parse OK {fields dt}", s!"W utc={if dt.utcAssumed then 1 else 0} tz={hexOf (toBytes dt.tz)}", views dt]
  | .error e => [s!"P parse {errName e}"]

def run (t : List String) : List String :=
  match t with
  | ["fmt", secs, f, sh] => match parseInt? secs, fmt? f, short? sh with
    | some secs, some f, some sh => showFmt (formatUtc (initEpochSecs secs 0) f sh 100)
    | _, _, _ => ["bad-op"]
  | ["fmt", secs, f, sh, cap] => match parseInt? secs, fmt? f, short? sh, cap.toNat? with
    | some secs, some f, some sh, some cap => showFmt (formatUtc (initEpochSecs secs 0) f sh cap)
    | _, _, _, _ => ["bad-op"]
  | ["parse", hx, f] => match parseHex? hx, fmt? f with
    | some bs, some f => showParse (initFromStr (bs.map (·.toNat)) f)
    | _, _ => ["bad-op"]
  | ["rt", secs, f, sh, pf] => match parseInt? secs, fmt? f, short? sh, fmt? pf with
    | some secs, some f, some sh, some pf =>
      let r := formatUtc (initEpochSecs secs 0) f sh 100
      showFmt r ++ (match r with | .ok t => showParse (initFromStr t pf) | .error _ => [])
    | _, _, _, _ => ["bad-op"]
  | ["acc", secs, ms] => match parseInt? secs, ms.toNat? with
    | some secs, some ms =>
      if ms < 1000 then let dt := initEpochSecs secs ms; [s!"P acc {fields dt}", views dt] else ["bad-op"]
    | _, _ => ["bad-op"]
  | ["millis", ms] => match parseU64? ms with
    | some ms => if ms < u64 then let dt := initEpochMillis ms; [s!"P acc {fields dt}", views dt] else ["bad-op"]
    | none => ["bad-op"]
  | _ => ["bad-op"]

def asW (l : String) : String := if l.startsWith "P " then "W " ++ (l.drop 2).toString else l

def step (_ : Unit) (t : List String) : Unit × List String :=
  match t with
  | "w" :: rest => ((), (run rest).map asW)
  | _ => ((), run t)

def component : Component := { σ := Unit, init := (), step := step }
end Driver.DateTimeD
