import Driver.Util
import AwsVerif.Model.DateTime
/-! Driver for the date-time model (C19).  Ops (an optional leading token `w` turns every output
line of the op into class `W`: used for inputs outside the property's domain):

* `fmt <secs> <rfc822|iso8601|iso8601_basic|auto> <full|short> [cap]`
* `parse <hex text> <rfc822|iso8601|iso8601_basic|auto>`
* `rt <secs> <fmt> <full|short> <parse fmt>`   format, then parse the text just produced
* `acc <secs> <ms>`     `aws_date_time_init_epoch_secs(secs + ms/1000.0)`, accessors and epoch views
* `accd <16 hex digits>`  `aws_date_time_init_epoch_secs` of the double with this bit pattern (finite, ≥ 0, < 2^63)
* `millis <u64>`        `aws_date_time_init_epoch_millis`, accessors and epoch views
* `lfmt <offset secs> <zone name hex> <secs> <fmt> <full|short>`   local-time formatters; the process zone of the run
                       (fixed offset, `%Z` name) is given in the op because the model has no environment
* `diff <a> <b>`       `aws_date_time_diff` of two instants
* `now`                `aws_date_time_init_now` (the harness compares with the wall clock and prints a verdict)
* `fmtb <cap> <prefix hex> (<secs> <fmt> <full|short>)+`   format one after the other into one buffer holding the prefix
-/
namespace Driver.DateTimeD
open AwsVerif.DateTime Driver

def fmt? : String → Option Fmt
  | "rfc822" => some .rfc822
  | "iso8601" => some .iso8601
  | "iso8601_basic" => some .iso8601Basic
  | "auto" => some .autoDetect
  | _ => none

def short? : String → Option Bool
  | "full" => some false
  | "short" => some true
  | _ => none

def errName : Err → String
  | .invalidDateStr => "AWS_ERROR_INVALID_DATE_STR"
  | .overflowDetected => "AWS_ERROR_OVERFLOW_DETECTED"
  | .shortBuffer => "AWS_ERROR_SHORT_BUFFER"
  | .invalidArgument => "AWS_ERROR_INVALID_ARGUMENT"

def toBytes (l : List Byte) : List UInt8 := l.map UInt8.ofNat

def fields (dt : DateTime) : String :=
  s!"ts={dt.timestamp} ms={dt.millis} y={accYear dt} mon={accMonth dt} d={accMonthDay dt} wd={accDayOfWeek dt} " ++
  s!"h={accHour dt} mi={accMinute dt} s={accSecond dt} dst={if accDst dt then 1 else 0}"

def hex16 (n : Nat) : String :=
  String.ofList ((List.range 16).reverse.map (fun i => hexDigit ((n >>> (4 * i)) % 16)))

def views (dt : DateTime) : String :=
  let d : Float := Float.ofInt dt.timestamp + Float.ofNat dt.millis / 1000.0
  s!"P views millis={asMillis dt} nanos={asNanos dt} secs={hex16 d.toBits.toNat}"

def showFmt (r : Except Err (List Byte)) : List String :=
  match r with
  | .ok t => [s!"P fmt OK {hexOf (toBytes t)}"]
  | .error e => [s!"P fmt {errName e}"]

def showParse (r : Except Err DateTime) : List String :=
  match r with
  | .ok dt => [s!"P parse OK {fields dt}", s!"W utc={if dt.utcAssumed then 1 else 0} tz={hexOf (toBytes dt.tz)}", views dt]
  | .error e => [s!"P parse {errName e}"]

/-- `fmtb <cap> <prefix hex> (<secs> <fmt> <full|short>)+`: the timestamps are formatted one after the other
into one buffer that already holds the prefix, a `/` pushed between them when there is room; then every
appended range is parsed back with auto-detect -/
def parseSteps : List String → Option (List (Int × Fmt × Bool))
  | [] => some []
  | secs :: f :: sh :: rest => do
    let a ← parseInt? secs; let b ← fmt? f; let c ← short? sh; let r ← parseSteps rest
    pure ((a, b, c) :: r)
  | _ => none

def showBuf (tag : String) (b : Buf) : String := s!"P fmtb {tag} len={b.data.length} data={hexOf (toBytes b.data)}"

def runSteps (b : Buf) (first : Bool) : List (Int × Fmt × Bool) → List String × List (List Nat)
  | [] => ([], [])
  | (secs, f, sh) :: rest =>
    let b := if !first ∧ b.data.length < b.cap then { b with data := b.data ++ [47] } else b
    match formatInto (initEpochSecs secs 0) f sh b with
    | .ok b' =>
      let (ls, ts) := runSteps b' false rest
      (showBuf "OK" b' :: ls, b'.data.drop b.data.length :: ts)
    | .error e =>
      let (ls, ts) := runSteps b false rest
      (showBuf (errName e) b :: ls, ts)

def runFmtb (cap : Nat) (pre : List Nat) (steps : List (Int × Fmt × Bool)) : List String :=
  if pre.length > cap ∨ steps.isEmpty then ["bad-op"] else
  let (ls, texts) := runSteps { data := pre, cap := cap } true steps
  ls ++ (texts.map (fun t => showParse (initFromStr t .autoDetect))).flatten

def run (t : List String) : List String :=
  match t with
  | ["fmt", secs, f, sh] => match parseInt? secs, fmt? f, short? sh with
    | some secs, some f, some sh => showFmt (formatUtc (initEpochSecs secs 0) f sh 100)
    | _, _, _ => ["bad-op"]
  | ["fmt", secs, f, sh, cap] => match parseInt? secs, fmt? f, short? sh, cap.toNat? with
    | some secs, some f, some sh, some cap => showFmt (formatUtc (initEpochSecs secs 0) f sh cap)
    | _, _, _, _ => ["bad-op"]
  | ["parse", hx, f] => match parseHex? hx, fmt? f with
    | some bs, some f => showParse (initFromStr (bs.map (·.toNat)) f)
    | _, _ => ["bad-op"]
  | ["rt", secs, f, sh, pf] => match parseInt? secs, fmt? f, short? sh, fmt? pf with
    | some secs, some f, some sh, some pf =>
      let r := formatUtc (initEpochSecs secs 0) f sh 100
      showFmt r ++ (match r with | .ok t => showParse (initFromStr t pf) | .error _ => [])
    | _, _, _, _ => ["bad-op"]
  | ["acc", secs, ms] => match parseInt? secs, ms.toNat? with
    | some secs, some ms =>
      if ms < 1000 then let dt := initEpochSecs secs ms; [s!"P acc {fields dt}", views dt] else ["bad-op"]
    | _, _ => ["bad-op"]
  | ["accd", bits] => match parseHexNat? bits with
    | some b => match (if bits.length = 16 then initEpochSecsDouble b else none) with
      | some dt => [s!"P acc {fields dt}", views dt]
      | none => ["bad-op"]
    | none => ["bad-op"]
  | ["millis", ms] => match parseU64? ms with
    | some ms => if ms < u64 then let dt := initEpochMillis ms; [s!"P acc {fields dt}", views dt] else ["bad-op"]
    | none => ["bad-op"]
  | ["lfmt", off, zn, secs, f, sh] => match parseInt? off, parseHex? zn, parseInt? secs, fmt? f, short? sh with
    | some off, some zn, some secs, some f, some sh =>
      match formatLocal { off := off, name := zn.map (·.toNat) } (initEpochSecs secs 0) f sh 100 with
      | .ok t => [s!"P lfmt OK {hexOf (toBytes t)}"]
      | .error e => [s!"P lfmt {errName e}"]
    | _, _, _, _, _ => ["bad-op"]
  | ["diff", a, b] => match parseInt? a, parseInt? b with
    | some a, some b => [s!"P diff {diff (initEpochSecs a 0) (initEpochSecs b 0)}"]
    | _, _ => ["bad-op"]
  | ["now"] => ["P now ok"]
  | "fmtb" :: cap :: pre :: steps => match cap.toNat?, parseHex? pre, parseSteps steps with
    | some cap, some pre, some steps => runFmtb cap (pre.map (·.toNat)) steps
    | _, _, _ => ["bad-op"]
  | _ => ["bad-op"]

def asW (l : String) : String := if l.startsWith "P " then "W " ++ (l.drop 2).toString else l

def step (_ : Unit) (t : List String) : Unit × List String :=
  match t with
  | "w" :: rest => ((), (run rest).map asW)
  | _ => ((), run t)

def component : Component := { σ := Unit, init := (), step := step }
end Driver.DateTimeD
