import Driver.Util
import AwsVerif.Model.ByteBuf
/-! Line-protocol interpreter of the C01 op language over `AwsVerif.ByteBuf.step`.
The same checks the C harness makes before calling the API (stale cursor, memcpy overlap,
occupied slot, unrelated pointers) are made here, so both sides skip the same ops. -/
namespace Driver.ByteBufD
open AwsVerif.ByteBuf Driver

structure DState where
  s : State
  forgedB : List Nat := []     -- buffer slots holding a forged header (len/cap lie about the block)
  forgedC : List Nat := []

def slot? (pfx : Char) (t : String) : Option Nat :=
  match t.toList with
  | c :: rest => if c == pfx && !rest.isEmpty then (String.ofList rest).toNat? else none
  | [] => none

def byte? (t : String) : Option UInt8 :=
  match parseHex? t with
  | some [b] => some b
  | _ => none

def pred? : String → Option Pred
  | "isspace" => some .isspace | "isalnum" => some .isalnum | "isalpha" => some .isalpha
  | "isdigit" => some .isdigit | "isxdigit" => some .isxdigit | _ => none

def ridStr : Option Nat → String
  | none => "null"
  | some r => toString r

def showCur (c : Cur) : String := s!"rid={ridStr c.rid} off={if c.rid.isNone then 0 else c.off} len={c.len}"

def showErr : Option Err → String
  | none => "OK"
  | some e => "ERR " ++ e.name

def bufLines (d : DState) (i : Nat) : List String :=
  let b := d.s.bufs i
  let data :=
    if d.forgedB.contains i then "forged" else
    match b.rid with
    | none => "-"
    | some r => match region? d.s.mem.heap r with
      | none => "stale"
      | some reg => hexOf ((reg.take b.len).map cellVal)
  [s!"P b{i} rid={ridStr b.rid} len={b.len} own={if b.owned then 1 else 0} data={data}", s!"W b{i} cap={b.cap}"]

def curLine (d : DState) (i : Nat) : String := s!"P c{i} {showCur (d.s.curs i)}"

def showRes : Res → String
  | .code e => "P r " ++ showErr e
  | .status ok => s!"P r {ok}"
  | .statusVal ok v => if ok then s!"P r true {v}" else "P r false"
  | .statusBytes ok bs => if ok then s!"P r true {hexOf (bs.map cellVal)}" else "P r false"
  | .pred b => s!"P r pred {if b then 1 else 0}"
  | .cur c => "P r cur " ++ showCur c
  | .view none => "P r view zeroed"
  | .view (some (rid, off, cap)) => s!"P r view rid={ridStr rid} off={off} cap={cap}"
  | .curs e l => s!"P r {showErr e} n={l.length}" ++ String.join (l.map fun c => s!" {ridStr c.rid}/{c.off}/{c.len}")
  | .int i => s!"P r int {i}"
  | .codeVal e v => s!"P r {showErr e} {v}"
  | .unit => "P r -"

def releaseLine (e : Release) : String :=
  s!"P release rid={e.rid} size={e.snapshot.length} zero={if e.snapshot.all (· == some 0) then 1 else 0}"

def stale (d : DState) (c : Nat) : Bool :=
  match (d.s.curs c).rid with
  | none => false
  | some r => (region? d.s.mem.heap r).isNone

/-- would a memcpy from cursor `c` into the free space of buffer `b` overlap its source? -/
def overlap (d : DState) (b c : Nat) : Bool :=
  let bb := d.s.bufs b
  let cc := d.s.curs c
  bb.rid.isSome && cc.rid == bb.rid && decide (cc.len > 0) && decide (cc.off < bb.cap) && decide (bb.len < cc.off + cc.len)

/-- run one model op: release lines, result line, then the post-state of the named slots -/
def exec (d : DState) (op : Op) (bs cs : List Nat) : DState × List String :=
  match step d.s op with
  | .error f => (d, [s!"P FAULT {repr f}"])
  | .ok (r, s') =>
    let d' := { d with s := s' }
    let rel := (s'.mem.events.drop d.s.mem.events.length).map releaseLine
    (d', rel ++ [showRes r] ++ (bs.flatMap (bufLines d')) ++ cs.map (curLine d'))

def guarded (d : DState) (staleCs : List Nat) (ovl : List (Nat × Nat)) (k : Unit → DState × List String) : DState × List String :=
  if staleCs.any (stale d) then (d, ["P skip stale"])
  else if ovl.any (fun p => overlap d p.1 p.2) then (d, ["P skip overlap"])
  else k ()

/-- allocations above this size are not attempted on either side (the C side would abort on OOM) -/
def LIMIT : Nat := 2 ^ 20

/-- size of the block `s_aws_byte_buf_append_dynamic` would acquire is above LIMIT -/
def hugeDyn (b : Buf) (srcLen : Nat) : Bool :=
  b.owned && decide (subW b.cap b.len < srcLen) &&
  match addChecked b.cap (subW srcLen (subW b.cap b.len)) with
  | none => false
  | some req => decide ((if req < addSat b.cap b.cap then addSat b.cap b.cap else req) > LIMIT)

def hugeRel (b : Buf) (n : Nat) : Bool := decide (b.len + n ≤ SIZE_MAX) && decide (b.len + n > LIMIT)

def vacant (d : DState) (b : Nat) : Bool := (d.s.bufs b).rid.isNone

def step (d : DState) (t : List String) : DState × List String :=
  let bad : DState × List String := (d, ["bad-op"])
  let B := slot? 'b'
  let C := slot? 'c'
  match t with
  | ["dump"] => (d, (List.range 4).flatMap (bufLines d) ++ (List.range 4).map (curLine d))
  | ["cur_bytes", c, hex] => match C c, parseHex? hex with
    | some c, some bs => exec { d with forgedC := d.forgedC.erase c } (.curFromBytes c bs) [] [c]
    | _, _ => bad
  | ["cur_null", c] => match C c with
    | some c => exec { d with forgedC := d.forgedC.erase c } (.curNull c) [] [c]
    | _ => bad
  | ["cur_into", c, b, off, len] => match C c, B b, parseSize? off, parseSize? len with
    | some c, some b, some off, some len =>
      if d.forgedB.contains b then (d, ["P skip forged"]) else
      exec { d with forgedC := d.forgedC.erase c } (.curInto c b off len) [] [c]
    | _, _, _, _ => bad
  | ["cur_sub", dst, src, off, len] => match C dst, C src, parseSize? off, parseSize? len with
    | some dst, some src, some off, some len =>
      if stale d src then (d, ["P skip stale"]) else
      exec { d with forgedC := d.forgedC.erase dst } (.curSub dst src off len) [] [dst]
    | _, _, _, _ => bad
  | ["cur_from_buf", c, b] => match C c, B b with
    | some c, some b =>
      if d.forgedB.contains b then (d, ["P skip forged"]) else
      exec { d with forgedC := d.forgedC.erase c } (.curFromBuf c b) [] [c]
    | _, _ => bad
  | ["cur_forge", c, real, len] => match C c, parseSize? real, parseSize? len with
    | some c, some real, some len =>
      if real = 0 ∨ real > 4096 then bad else
      -- a real block of `real` bytes (0,1,2,…) under a cursor header claiming `len`
      match AwsVerif.ByteBuf.step d.s (.curFromBytes c ((List.range real).map UInt8.ofNat)) with
      | .ok (_, s1) =>
        let cc := s1.curs c
        let d' := { d with s := s1.setCur c { cc with len := len }, forgedC := c :: d.forgedC.erase c }
        (d', ["P r -", curLine d' c])
      | .error _ => bad
    | _, _, _ => bad
  | ["buf_from_array", b, hex] => match B b, parseHex? hex with
    | some b, some bs => if !vacant d b then (d, ["P skip occupied"]) else exec d (.bufFromArray b bs) [b] []
    | _, _ => bad
  | ["buf_from_empty_array", b, cap] => match B b, parseSize? cap with
    | some b, some cap => if !vacant d b then (d, ["P skip occupied"]) else
      if cap > 65536 then bad else exec d (.bufFromEmptyArray b cap) [b] []
    | _, _ => bad
  | ["buf_forge", b, real, len, cap, own] => match B b, parseSize? real, parseSize? len, parseSize? cap with
    | some b, some real, some len, some cap =>
      if !vacant d b then (d, ["P skip occupied"]) else
      if real = 0 ∨ real > 4096 ∨ (own ≠ "0" ∧ own ≠ "1") then bad else
      let (m, r) := d.s.mem.alloc real
      let d' := { d with s := { d.s with mem := m }.setBuf b ⟨some r, len, cap, own == "1"⟩, forgedB := b :: d.forgedB }
      (d', ["P r -"] ++ bufLines d' b)
    | _, _, _, _ => bad
  | ["init", b, cap] => match B b, parseSize? cap with
    | some b, some cap => if !vacant d b then (d, ["P skip occupied"]) else
      if cap > 65536 then bad else exec d (.init b cap) [b] []
    | _, _ => bad
  | ["init_copy", x, y] => match B x, B y with
    | some x, some y => if !vacant d x then (d, ["P skip occupied"]) else
      if (d.s.bufs y).cap > LIMIT then (d, ["P skip huge"]) else exec d (.initCopy x y) [x, y] []
    | _, _ => bad
  | ["init_copy_from_cursor", x, c] => match B x, C c with
    | some x, some c => if !vacant d x then (d, ["P skip occupied"]) else
      if (d.s.curs c).len > LIMIT then (d, ["P skip huge"]) else
      guarded d [c] [] fun _ => exec d (.initCopyFromCursor x c) [x] [c]
    | _, _ => bad
  | ["reset", b, z] => match B b with
    | some b => if z == "0" || z == "1" then exec d (.reset b (z == "1")) [b] [] else bad
    | _ => bad
  | ["secure_zero", b] => match B b with
    | some b => exec d (.secureZero b) [b] []
    | _ => bad
  | ["clean_up", b] => match B b with
    | some b => exec { d with forgedB := d.forgedB.erase b } (.cleanUp b) [b] []
    | _ => bad
  | ["clean_up_secure", b] => match B b with
    | some b => if d.forgedB.contains b then (d, ["P skip forged"]) else exec d (.cleanUpSecure b) [b] []
    | _ => bad
  | "cat" :: dst :: srcs =>
    match B dst, srcs.mapM B with
    | some x, some ys =>
      if ys.isEmpty || ys.length > 3 then bad else
      if ys.any d.forgedB.contains then (d, ["P skip forged"]) else exec d (.cat x ys) [x] []
    | _, _ => bad
  | ["dump_tables"] =>
    (d, [s!"P tolower {hexOf ((List.range 256).map fun i => tolower (UInt8.ofNat i))}",
         s!"P hex2num {hexOf ((List.range 256).map fun i => hexToNum (UInt8.ofNat i))}"])
  | ["buf_is_valid", b] => match B b with
    | some b => (d, [s!"P r pred {if (d.s.bufs b).isValid then 1 else 0}"])
    | _ => bad
  | ["cur_is_valid", c] => match C c with
    | some c => (d, [s!"P r pred {if (d.s.curs c).isValid then 1 else 0}"])
    | _ => bad
  | ["buf_from_c_str", b, hex] => match B b, parseHex? hex with
    | some b, some bs => if !vacant d b then (d, ["P skip occupied"]) else exec d (.bufFromArray b (bs.takeWhile (· != 0))) [b] []
    | _, _ => bad
  | ["cur_from_c_str", c, hex] => match C c, parseHex? hex with
    | some c, some bs => exec { d with forgedC := d.forgedC.erase c } (.curFromBytes c (bs.takeWhile (· != 0))) [] [c]
    | _, _ => bad
  | ["cur_from_string", c, hex] => match C c, parseHex? hex with
    | some c, some bs => exec { d with forgedC := d.forgedC.erase c } (.curFromBytes c bs) [] [c]
    | _, _ => bad
  | ["write_from_whole_string", b, hex] => match B b, parseHex? hex with
    | some b, some bs => exec d (.write b bs bs.length) [b] []
    | _, _ => bad
  | ["normalize_dir_sep", b] => match B b with
    | some b => if d.forgedB.contains b then (d, ["P skip forged"]) else exec d (.normalizeSep b) [b] []
    | _ => bad
  | ["string_from_cursor", c] => match C c with
    -- aws_string_new_from_cursor: a fresh string holding exactly the cursor's bytes (and a terminator)
    | some c =>
      if stale d c then (d, ["P skip stale"]) else
      if (d.s.curs c).len > LIMIT then (d, ["P skip huge"]) else
      match (d.s.curs c).load d.s.mem.heap 0 (d.s.curs c).len with
      | .ok cells => (d, [s!"P r OK len={cells.length} nul=1 {hexOf (cells.map cellVal)}"])
      | .error f => (d, [s!"P FAULT {repr f}"])
    | _ => bad
  | ["string_from_buf", b] => match B b with
    | some b =>
      if d.forgedB.contains b then (d, ["P skip forged"]) else
      match (d.s.bufs b).asCur.load d.s.mem.heap 0 (d.s.bufs b).len with
      | .ok cells => (d, [s!"P r OK len={cells.length} nul=1 {hexOf (cells.map cellVal)}"])
      | .error f => (d, [s!"P FAULT {repr f}"])
    | _ => bad
  | ["is_zeroed", c] => match C c with
    -- aws_is_mem_zeroed(cursor.ptr, cursor.len)
    | some c =>
      if stale d c then (d, ["P skip stale"]) else
      if (d.s.curs c).len > LIMIT || (d.s.curs c).rid.isNone then (d, ["P skip precondition"]) else
      match (d.s.curs c).load d.s.mem.heap 0 (d.s.curs c).len with
      | .ok cells => (d, [s!"P r pred {if cells.all (fun x => cellVal x == 0) then 1 else 0}"])
      | .error f => (d, [s!"P FAULT {repr f}"])
    | _ => bad
  | ["hash_ignore_case", c] => match C c with
    | some c => guarded d [c] [] fun _ => exec d (.hashIgnoreCase c) [] []
    | _ => bad
  | "init_cache" :: b :: cs =>
    match B b, cs.mapM C with
    | some b, some cs =>
      if cs.isEmpty || cs.length > 3 then bad else
      if !vacant d b then (d, ["P skip occupied"]) else
      if cs.any (stale d) then (d, ["P skip stale"]) else
      -- aws_byte_buf_init_cache_and_update_cursors: AWS_ZERO_STRUCT(*dest), checked sum of the lengths,
      -- aws_byte_buf_init, then aws_byte_buf_append_and_update for every cursor
      let total := cs.foldl (fun acc c => acc.bind fun t => addChecked t (d.s.curs c).len) (some 0)
      match total with
      | none => (d, ["P r ERR AWS_ERROR_OVERFLOW_DETECTED"] ++ bufLines d b)
      | some t =>
        if t > LIMIT then (d, ["P skip huge"]) else
        match AwsVerif.ByteBuf.step d.s (.init b t) with
        | .error f => (d, [s!"P FAULT {repr f}"])
        | .ok (_, s1) =>
          let r := cs.foldl (fun (acc : Except Fault State) c => acc.bind fun st =>
            (AwsVerif.ByteBuf.step st (.appendAndUpdate b c)).map (·.2)) (.ok s1)
          match r with
          | .error f => (d, [s!"P FAULT {repr f}"])
          | .ok s2 =>
            let d' := { d with s := s2 }
            (d', ["P r OK"] ++ bufLines d' b ++ cs.map (curLine d'))
    | _, _ => bad
  | ["init_from_file", b, op, sl, hex, sched, mode, hint] =>
    match B b, parseSize? sl, parseHex? hex, parseSize? hint with
    | some b, some sl, some data, some hint =>
      let sch : Option (List Nat) := if sched == "-" then some [] else (sched.splitOn ",").mapM (·.toNat?)
      match sch with
      | none => bad
      | some sch =>
        if !vacant d b then (d, ["P skip occupied"]) else
        if (op != "0" && op != "1") || (mode != "hint" && mode != "nohint") || sl > 65536 || hint > 65536 then bad else
        exec d (.initFromFile b ⟨op == "1", sl, data, sch⟩ (mode == "hint") hint) [b] []
    | _, _, _, _ => bad
  | [nm, b, c] =>
    -- two-slot ops and (slot, operand) ops
    match nm with
    | "append" | "append_with_lookup" | "append_dynamic" | "append_dynamic_secure" | "append_and_update"
    | "write_from_whole_cursor" | "write_to_capacity" =>
      match B b, C c with
      | some b, some c =>
        let op : Op := match nm with
          | "append" => .append b c
          | "append_with_lookup" => .appendWithLookup b c
          | "append_dynamic" => .appendDynamic b c false
          | "append_dynamic_secure" => .appendDynamic b c true
          | "append_and_update" => .appendAndUpdate b c
          | "write_from_whole_cursor" => .writeFromWholeCursor b c
          | _ => .writeToCapacity b c
        if (nm == "append_dynamic" || nm == "append_dynamic_secure") && hugeDyn (d.s.bufs b) (d.s.curs c).len then (d, ["P skip huge"]) else
        guarded d [c] [(b, c)] fun _ => exec d op [b] [c]
      | _, _ => bad
    | "append_byte_dynamic" | "append_byte_dynamic_secure" | "write_u8" =>
      match B b, byte? c with
      | some b, some v =>
        let op : Op := match nm with
          | "append_byte_dynamic" => .appendByteDynamic b v false
          | "append_byte_dynamic_secure" => .appendByteDynamic b v true
          | _ => .writeU8 b v
        if nm != "write_u8" && hugeDyn (d.s.bufs b) 1 then (d, ["P skip huge"]) else
        exec d op [b] []
      | _, _ => bad
    | "reserve" | "reserve_relative" | "reserve_smart" | "reserve_smart_relative" | "buf_advance"
    | "write_be16" | "write_be24" | "write_be32" | "write_be64" =>
      match B b, parseU64? c with
      | some b, some n =>
        let op : Op := match nm with
          | "reserve" => .reserve b n
          | "reserve_relative" => .reserveRelative b n
          | "reserve_smart" => .reserveSmart b n
          | "reserve_smart_relative" => .reserveSmartRelative b n
          | "buf_advance" => .bufAdvance b n
          | "write_be16" => .writeBe b 2 (n % 2^16)
          | "write_be24" => .writeBe24 b (n % 2^32)
          | "write_be32" => .writeBe b 4 (n % 2^32)
          | _ => .writeBe b 8 (n % 2^64)
        if (nm == "reserve" || nm == "reserve_smart") && n > LIMIT then (d, ["P skip huge"]) else
        if (nm == "reserve_relative" || nm == "reserve_smart_relative") && hugeRel (d.s.bufs b) n then (d, ["P skip huge"]) else
        exec d op [b] []
      | _, _ => bad
    | "write_from_whole_buffer" | "buf_eq" | "buf_eq_ignore_case" =>
      match B b, B c with
      | some x, some y =>
        if nm == "write_from_whole_buffer" then
          if d.forgedB.contains y then (d, ["P skip forged"]) else exec d (.writeFromWholeBuffer x y) [x] []
        else if d.forgedB.contains x || d.forgedB.contains y then (d, ["P skip forged"])
        else exec d (.bufEq x y (nm == "buf_eq_ignore_case")) [] []
      | _, _ => bad
    | "buf_eq_c_str" | "buf_eq_c_str_ignore_case" =>
      match B b, parseHex? c with
      | some x, some str => if d.forgedB.contains x then (d, ["P skip forged"]) else
        exec d (.bufEqCStr x str (nm == "buf_eq_c_str_ignore_case")) [] []
      | _, _ => bad
    | "advance" | "advance_nospec" | "read" =>
      match C b, parseSize? c with
      | some x, some n =>
        let op : Op := match nm with
          | "advance" => .advance x n
          | "advance_nospec" => .advanceNospec x n
          | _ => .read x n
        guarded d [x] [] fun _ => exec d op [] [x]
      | _, _ => bad
    | "read_and_fill_buffer" =>
      match C b, B c with
      | some x, some y =>
        if stale d x then (d, ["P skip stale"]) else
        if (d.s.bufs y).rid.isSome && (d.s.curs x).rid == (d.s.bufs y).rid && decide ((d.s.curs x).len > 0) then (d, ["P skip overlap"]) else
        exec d (.readAndFillBuffer x y) [y] [x]
      | _, _ => bad
    | "left_trim" | "right_trim" | "trim" | "satisfies" =>
      match C b, pred? c with
      | some x, some p =>
        let op : Op := match nm with
          | "left_trim" => .leftTrim x p
          | "right_trim" => .rightTrim x p
          | "trim" => .trim x p
          | _ => .satisfies x p
        guarded d [x] [] fun _ => exec d op [] []
      | _, _ => bad
    | "starts_with" | "starts_with_ignore_case" | "cur_eq" | "cur_eq_ignore_case" | "compare_lexical" | "compare_lookup" =>
      match C b, C c with
      | some x, some y =>
        let op : Op := match nm with
          | "starts_with" => .startsWith x y false
          | "starts_with_ignore_case" => .startsWith x y true
          | "cur_eq" => .curEq x y false
          | "cur_eq_ignore_case" => .curEq x y true
          | "compare_lexical" => .compareLexical x y
          | _ => .compareLookup x y
        if nm == "compare_lexical" && ((d.s.curs x).rid.isNone || (d.s.curs y).rid.isNone) then (d, ["P skip precondition"]) else
        guarded d [x, y] [] fun _ => exec d op [] []
      | _, _ => bad
    | "cur_eq_buf" | "cur_eq_buf_ignore_case" =>
      match C b, B c with
      | some x, some y => if d.forgedB.contains y then (d, ["P skip forged"]) else
        guarded d [x] [] fun _ => exec d (.curEqBuf x y (nm == "cur_eq_buf_ignore_case")) [] []
      | _, _ => bad
    | "cur_eq_c_str" | "cur_eq_c_str_ignore_case" | "array_eq_c_str" | "array_eq_c_str_ignore_case" =>
      match C b, parseHex? c with
      | some x, some str => guarded d [x] [] fun _ => exec d (.curEqCStr x str (nm == "cur_eq_c_str_ignore_case" || nm == "array_eq_c_str_ignore_case")) [] []
      | _, _ => bad
    | "array_eq" | "array_eq_ignore_case" =>
      match C b, C c with
      | some x, some y => guarded d [x, y] [] fun _ => exec d (.curEq x y (nm == "array_eq_ignore_case")) [] []
      | _, _ => bad
    | "write_float_be32" | "write_float_be64" =>
      match B b, parseU64? c with
      | some b, some bits =>
        if nm == "write_float_be32" then exec d (.writeBe b 4 (bits % 2^32)) [b] [] else exec d (.writeBe b 8 (bits % 2^64)) [b] []
      | _, _ => bad
    | "string_eq_cursor" | "string_eq_cursor_ignore_case" =>
      -- aws_string_eq_byte_cursor[_ignore_case] : aws_array_eq on the string's bytes and the cursor
      match parseHex? b, C c with
      | some bs, some x =>
        if stale d x then (d, ["P skip stale"]) else
        match (if nm == "string_eq_cursor" then arrayEq else arrayEqIgnoreCase) d.s.mem.heap (.lit bs) (.cur (d.s.curs x)) with
        | .ok r => (d, [s!"P r pred {if r then 1 else 0}"])
        | .error f => (d, [s!"P FAULT {repr f}"])
      | _, _ => bad
    | "string_eq_buf" | "string_eq_buf_ignore_case" =>
      match parseHex? b, B c with
      | some bs, some x =>
        if d.forgedB.contains x then (d, ["P skip forged"]) else
        match (if nm == "string_eq_buf" then arrayEq else arrayEqIgnoreCase) d.s.mem.heap (.lit bs) (.cur (d.s.bufs x).asCur) with
        | .ok r => (d, [s!"P r pred {if r then 1 else 0}"])
        | .error f => (d, [s!"P FAULT {repr f}"])
      | _, _ => bad
    | _ => bad
  | [nm, c] =>
    match nm with
    | "append_null_terminator" => match B c with
      | some b => if hugeDyn (d.s.bufs b) 1 then (d, ["P skip huge"]) else exec d (.appendNullTerminator b) [b] []
      | _ => bad
    | "read_u8" | "read_be16" | "read_be24" | "read_be32" | "read_be64" | "read_hex_u8" | "parse_u64" | "parse_u64_hex"
    | "read_float_be32" | "read_float_be64" =>
      match C c with
      | some x =>
        let op : Op := match nm with
          | "read_u8" => .readBe x 1
          | "read_be16" => .readBe x 2
          | "read_be24" => .readBe x 3
          | "read_be32" => .readBe x 4
          | "read_be64" => .readBe x 8
          | "read_float_be32" => .readBe x 4
          | "read_float_be64" => .readBe x 8
          | "read_hex_u8" => .readHexU8 x
          | "parse_u64" => .parseU64 x 10
          | _ => .parseU64 x 16
        guarded d [x] [] fun _ => exec d op [] (if nm.startsWith "parse" then [] else [x])
      | _ => bad
    | _ => bad
  | ["write", b, hex, n] => match B b, parseHex? hex, parseSize? n with
    | some b, some bs, some n => exec d (.write b bs n) [b] []
    | _, _, _ => bad
  | ["write_u8_n", b, v, n] => match B b, byte? v, parseSize? n with
    | some b, some v, some n => exec d (.writeU8N b v n) [b] []
    | _, _, _ => bad
  | ["next_split", i, ch, sub] => match C i, byte? ch, C sub with
    | some i, some ch, some sub =>
      if i == sub then bad else
      if (d.s.curs i).rid.isSome && (d.s.curs sub).rid.isSome && (d.s.curs sub).rid != (d.s.curs i).rid then (d, ["P skip precondition"]) else
      guarded d [i, sub] [] fun _ => exec d (.nextSplit i ch sub) [] [sub]
    | _, _, _ => bad
  | ["split_on_char", i, ch, k] => match C i, byte? ch, parseSize? k with
    | some i, some ch, some k =>
      if k = 0 ∨ k > 64 then bad else guarded d [i] [] fun _ => exec d (.splitOnCharN i ch 0 k) [] []
    | _, _, _ => bad
  | ["split_on_char_n", i, ch, n, k] => match C i, byte? ch, parseSize? n, parseSize? k with
    | some i, some ch, some n, some k =>
      if k = 0 ∨ k > 64 then bad else guarded d [i] [] fun _ => exec d (.splitOnCharN i ch n k) [] []
    | _, _, _, _ => bad
  | ["find_exact", i, f, o] => match C i, C f, C o with
    | some i, some f, some o => guarded d [i, f] [] fun _ => exec d (.findExact i f o) [] [o]
    | _, _, _ => bad
  | _ => bad

def component : Component := { σ := DState, init := { s := State.init }, step := step }
end Driver.ByteBufD
