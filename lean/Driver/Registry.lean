import Driver.Util
import Driver.Ring
/-! One line per component driver. -/
namespace Driver
def registry : List (String × Component) := [
  ("ring", RingD.component)
]
end Driver
