import Driver.Util
import Driver.Ring
import Driver.Codec
import Driver.DateTime
import Driver.Uri
import Driver.HashTable
import Driver.Xml
import Driver.ThreadSched
import Driver.HostUtils
import Driver.Cbor
import Driver.Lht
import Driver.MemTrace
import Driver.Seqs
import Driver.Heap
import Driver.Sched
import Driver.Json
import Driver.Threads
/-! One line per component driver. -/
namespace Driver
def registry : List (String × Component) := [
  ("ring", RingD.component),
  ("codec", CodecD.component),
  ("datetime", DateTimeD.component),
  ("uri", UriD.component),
  ("hashtable", HashTableD.component),
  ("xml", XmlD.component),
  ("tsched", ThreadSchedD.component),
  ("hostutils", HostUtilsD.component),
  ("cbor", CborD.component),
  ("lht", LhtD.component),
  ("memtrace", MemTraceD.component),
  ("seqs", SeqsD.component),
  ("heap", HeapD.component),
  ("sched", SchedD.component),
  ("json", JsonD.component),
  ("threads", ThreadsD.component)
]
end Driver
