import Driver.Util
import AwsVerif.Model.Uri
/-! C13 driver: op language of harness/uri.c on the model `AwsVerif.Uri`. -/
namespace Driver.UriD
open AwsVerif.Uri Driver

def b2n (b : Bool) : Nat := if b then 1 else 0

/-- lines for one component cursor -/
def showView (name : String) (s : Bytes) (v : Option View) : List String :=
  match v with
  | none => [s!"P {name} len=0 bytes=- inside=1", s!"W {name} present=0 off=0"]
  | some v =>
    let inside := v.off + v.len ≤ s.length
    [s!"P {name} len={v.len} bytes={hexOf (v.bytes s)} inside={b2n inside}", s!"W {name} present=1 off={v.off}"]

def showUri (s : Bytes) (u : Uri) : List String :=
  showView "scheme" s u.scheme ++ showView "authority" s u.authority ++ showView "userinfo" s u.userinfo ++
  showView "user" s u.user ++ showView "password" s u.password ++ showView "host" s u.host ++
  showView "path" s u.path ++ showView "query" s u.query ++ showView "path_and_query" s u.pathAndQuery ++
  [s!"P port={u.port}"]

def doParse (s : Bytes) : List String :=
  match parse s with
  | .ok u => ["P parse rc=OK", s!"P uri_str len={s.length} same=1"] ++ showUri s u
  | .error e => [s!"P parse rc={e.name}", "P zeroed=1"]

/-- `key=value` token -/
def kv? (key : String) (tok : String) : Option String :=
  if tok.startsWith (key ++ "=") then some (tok.drop (key.length + 1)).toString else none

def parsePair? (s : String) : Option (Bytes × Bytes) :=
  match s.splitOn ":" with
  | [k, v] => do
    let k ← if k.isEmpty then some [] else parseHex? k
    let v ← if v.isEmpty then some [] else parseHex? v
    pure (k, v)
  | _ => none

def parseParams? (s : String) : Option (List (Bytes × Bytes)) :=
  if s == "-" then some [] else (s.splitOn ",").mapM parsePair?

def parseBuild? (t : List String) : Option BuilderOptions := do
  match t with
  | sc :: ho :: po :: pa :: more =>
    let sc ← (kv? "scheme" sc).bind parseHex?
    let ho ← (kv? "host" ho).bind parseHex?
    let po ← (kv? "port" po).bind String.toNat?
    let pa ← (kv? "path" pa).bind parseHex?
    let o : BuilderOptions := { scheme := sc, host := ho, port := po, path := pa }
    if po ≥ 2 ^ 32 then none else
    match more with
    | [] => some o
    | [x] =>
      match kv? "q" x, kv? "params" x with
      | some q, _ => do let q ← parseHex? q; pure { o with query := q }
      | none, some ps => do let ps ← parseParams? ps; pure { o with params := some ps }
      | none, none => none
    | [x, y] => do
      let q ← (kv? "q" x).bind parseHex?
      let ps ← (kv? "params" y).bind parseParams?
      pure { o with query := q, params := some ps }
    | _ => none
  | _ => none

def doBuild (o : BuilderOptions) : List String :=
  match build o with
  | .ok (t, u) => ["P build rc=OK", s!"P uri_str bytes={hexOf t}", s!"W cap={builderSize o}"] ++ showUri t u
  | .error e => [s!"P build rc={e.name}"]

/-- starting content of the output buffer: byte i = (7 i + 1) mod 256 -/
def prefixBytes (n : Nat) : Bytes := (List.range n).map (fun i => UInt8.ofNat ((7 * i + 1) % 256))

def startBuf (rest : List String) : Option Buf :=
  match rest with
  | [] => some ⟨[], 0⟩
  | [pl] => do let n ← pl.toNat?; pure ⟨prefixBytes n, n⟩
  | [pl, cap] => do let n ← pl.toNat?; let c ← cap.toNat?; pure ⟨prefixBytes n, max n c⟩
  | _ => none

def doEnc (safe : UInt8 → Bool) (b : Buf) (x : Bytes) : List String :=
  let pl := b.data.length
  match appendEncoding safe b x with
  | .ok b2 =>
    [s!"P enc rc=OK len={b2.data.length} out={hexOf (b2.data.drop pl)} prefix={b2n (b2.data.take pl == b.data)}",
     s!"W cap={b2.cap}"]
  | .err e => [s!"P enc rc={e.name}"]
  | .fault => ["P enc FAULT write-outside-reservation"]

def doDec (b : Buf) (x : Bytes) : List String :=
  let pl := b.data.length
  match appendDecoding b x with
  | (.ok b2, _) =>
    [s!"P dec rc=OK len={b2.data.length} out={hexOf (b2.data.drop pl)} prefix={b2n (b2.data.take pl == b.data)}",
     s!"W written={hexOf (b2.data.drop pl)} cap={b2.cap}"]
  | (.error e, b2) =>
    [s!"P dec rc={e.name} prefix={b2n (b2.data.take pl == b.data)}",
     s!"W written={hexOf (b2.data.drop pl)} cap={b2.cap}"]

def showParam (tag : String) (q : Bytes) (p : Param) : List String :=
  let inside := p.key.off + p.key.len ≤ q.length ∧ p.value.off + p.value.len ≤ q.length
  [s!"P {tag} key={hexOf (p.key.bytes q)} value={hexOf (p.value.bytes q)} inside={b2n inside}",
   s!"W {tag} koff={p.key.off} voff={p.value.off}"]

/-- iterate with `nextParam` until it reports the end -/
def iterGo (q : Option Bytes) : Nat → Option Param → List Param
  | 0, _ => []
  | fuel + 1, prev =>
    match nextParam q prev with
    | none => []
    | some pr => pr :: iterGo q fuel (some pr)

def doIter (q : Option Bytes) : List String :=
  let qb := q.getD []
  let ps := iterGo q (qb.length + 2) none
  ps.flatMap (showParam "pair" qb) ++ [s!"P pairs n={ps.length}"]

def doList (q : Option Bytes) : List String :=
  let qb := q.getD []
  let ps := queryParams q
  [s!"P list rc=OK n={ps.length}"] ++ ps.flatMap (showParam "item" qb)

/-- `q_lists <d|s><cap> <nseed> <arg>…`: the list forms called one after the other on ONE output list that starts
with `nseed` default entries; arg = query hex | `null` | `u<uri hex>` (through `aws_uri_query_string_params`) -/
def seedPairs (n : Nat) : List (Bytes × Bytes) :=
  (List.range n).map (fun i => ([100, 107, UInt8.ofNat (48 + i)], [100, 118, UInt8.ofNat (48 + i)]))

def pairsOf (q : Option Bytes) : List (Bytes × Bytes) :=
  (queryParams q).map (fun p => (p.key.bytes (q.getD []), p.value.bytes (q.getD [])))

def listsGo (cap : Option Nat) : List (Bytes × Bytes) → List String → List String → Option (List (Bytes × Bytes) × List String)
  | out, rcs, [] => some (out, rcs)
  | out, rcs, a :: rest =>
    if a.startsWith "u" then
      match parseHex? (a.drop 1).toString with
      | none => none
      | some s => match parse s with
        | .error _ => listsGo cap out (rcs ++ ["PARSE"]) rest
        | .ok u =>
          let (o2, ok) := pushParams cap out (pairsOf (u.queryBytes s))
          listsGo cap o2 (rcs ++ [if ok then "OK" else "AWS_ERROR_LIST_EXCEEDS_MAX_SIZE"]) rest
    else
      match (if a == "null" then some none else (parseHex? a).map some) with
      | none => none
      | some q =>
        let (o2, ok) := pushParams cap out (pairsOf q)
        listsGo cap o2 (rcs ++ [if ok then "OK" else "AWS_ERROR_LIST_EXCEEDS_MAX_SIZE"]) rest

def doLists (mode nseed : String) (args : List String) : List String :=
  let capN := (mode.drop 1).toString.toNat?
  match capN, nseed.toNat? with
  | some c, some n =>
    if n > 9 ∨ args.isEmpty ∨ ¬ (mode.startsWith "d" ∨ mode.startsWith "s") ∨ (mode.startsWith "s" ∧ c < n) ∨ c = 0 then ["bad-op"] else
    let cap : Option Nat := if mode.startsWith "s" then some c else none
    match listsGo cap (seedPairs n) [] args with
    | none => ["bad-op"]
    | some (out, rcs) =>
      [s!"P lists rcs={",".intercalate rcs} n={out.length}"] ++
        out.map (fun kv => s!"P litem key={hexOf kv.1} value={hexOf kv.2}")
  | _, _ => ["bad-op"]

def parseQ? (s : String) : Option (Option Bytes) :=
  if s == "null" then some none else (parseHex? s).map some

def step (_ : Unit) (t : List String) : Unit × List String :=
  let out : List String :=
    match t with
    | "parse" :: h :: _ => match parseHex? h with   -- further tokens: annotation for the oracle
      | some s => doParse s
      | none => ["bad-op"]
    | "build" :: rest => match parseBuild? rest with
      | some o => doBuild o
      | none => ["bad-op"]
    | "enc_path" :: h :: rest => match parseHex? h, startBuf rest with
      | some x, some b => doEnc pathSafe b x
      | _, _ => ["bad-op"]
    | "enc_param" :: h :: rest => match parseHex? h, startBuf rest with
      | some x, some b => doEnc paramSafe b x
      | _, _ => ["bad-op"]
    | "dec" :: h :: rest => match parseHex? h, startBuf rest with
      | some x, some b => doDec b x
      | _, _ => ["bad-op"]
    | ["q_iter", h] => match parseQ? h with
      | some q => doIter q
      | none => ["bad-op"]
    | "q_lists" :: mode :: nseed :: args => doLists mode nseed args
    | ["q_list", h] => match parseQ? h with
      | some q => doList q
      | none => ["bad-op"]
    | "uq_iter" :: h :: _ => match parseHex? h with
      | some s => (match parse s with
        | .ok u => ["P parse rc=OK"] ++ doIter (u.queryBytes s)
        | .error e => [s!"P parse rc={e.name}"])
      | none => ["bad-op"]
    | "uq_list" :: h :: _ => match parseHex? h with
      | some s => (match parse s with
        | .ok u => ["P parse rc=OK"] ++ doList (u.queryBytes s)
        | .error e => [s!"P parse rc={e.name}"])
      | none => ["bad-op"]
    | _ => ["bad-op"]
  ((), out)

def component : Component := { σ := Unit, init := (), step := step }
end Driver.UriD
