import Driver.Util
import AwsVerif.Model.Sba
/-! Line-protocol driver of the small-block allocator model (C03).  Ops:
`new mt=<0|1>`, `acq pN size`, `calloc pN num size`, `realloc pN old new`, `rel pN`, `active`,
`reserved`, `destroy`.  The OS page source is a counter (pages numbered in the order they are
obtained), the parent a counter of block ids. -/
namespace Driver.SbaD
open AwsVerif.Sba AwsVerif.Gen.SbaConsts Driver

structure Ent where
  name : String
  ptr : Ptr
  size : Nat
  k : Nat

structure DS where
  st : Option State := none
  tab : List Ent := []
  nextPage : Nat := 0
  nextBig : Nat := 0

/-- per-block fill pattern (never 0, so calloc's zeros are distinguishable) -/
def pat (k i : Nat) : UInt8 := UInt8.ofNat ((k * 37 + i * 11 + 5) % 251 + 1)

def patBytes (k n : Nat) : List UInt8 := (List.range n).map (pat k)

def blockNo (name : String) : Option Nat :=
  if name.startsWith "p" then (name.drop 1).toString.toNat? else none

def showPtr (name : String) : Ptr → String
  | .chunk a => s!"W {name} page={a.page} off={a.off}"
  | .big _ => s!"W {name} big"

def commaSep (l : List Nat) : String := ",".intercalate (l.map toString)

/-- lines printed after every state-changing op -/
def status (d : DS) (s : State) : List String :=
  let q := (List.range binCount).map (binHeld s)
  [s!"P ok disjoint=1 align=1 intact=1 owned=1 active={bytesActive s}", s!"W reserved={bytesReserved s}"] ++
  (if d.tab.isEmpty then
     [s!"P quiescent ok={if q.all (· ≤ 1) then 1 else 0}", s!"W qbins={commaSep q}"]
   else [])

/-- advance the environment counters past what the step consumed -/
def advance (d : DS) (s' : State) : DS :=
  { d with nextPage := if (s'.pages d.nextPage).isSome then d.nextPage + 1 else d.nextPage,
           nextBig := if (s'.parent d.nextBig).isSome then d.nextBig + 1 else d.nextBig }

/-- bytes of a block the harness ever touches: huge blocks (served by the `fake` parent without real
memory) only in a prefix, or not at all (same rule as harness/sba.c `s_touch_of`) -/
def touchOf (n : Nat) : Nat := if n ≤ 2 ^ 20 then n else if n ≤ 2 ^ 41 then 256 else 0

def fill (s : State) (p : Ptr) (k n : Nat) : State := (act s (.write p (patBytes k (touchOf n)))).1

/-- `realloc` of the model; when both sizes are huge (> 2^20, hence both above the largest bin: the parent moves the
block) the copied prefix is cut to the 256 bytes the harness ever touches — the model's `readBytes` over 2^32 bytes is not
executable.  Everything observable is unchanged. -/
def reallocD (s : State) (p : Ptr) (old new os big : Nat) : State × Option Ptr :=
  if min old new ≤ 2 ^ 20 then realloc s p old new os big
  else reallocMove s p 256 new os big

def countWhere (l : List Bool) : Nat := (l.filter id).length

def stepCore (d : DS) (t : List String) : DS × List String :=
  let bad : DS × List String := (d, ["bad-op"])
  match d.st, t with
  | none, "new" :: m :: rest =>
    -- optional third token: the parent configuration of the harness (hc / malloc / default / aligned /
    -- norealloc / nocalloc / bare).  The model has ONE parent: a source of fresh blocks whose realloc
    -- obeys the contract stated in props/c03.py ASSUMPTIONS; the run checks the real parents against it.
    let okParent : Bool := match rest with
      | [] => true
      | [p] => ["hc", "malloc", "default", "aligned", "norealloc", "nocalloc", "bare", "fake"].contains p
      | _ => false
    if (m == "mt=0" || m == "mt=1") && okParent then
      let s := init (m == "mt=1")
      let d := { d with st := some s, tab := [], nextPage := 0, nextBig := 0 }
      (d, ["P new ok"] ++ status d s)
    else bad
  | some s, ["acq", name, sz] =>
    match blockNo name, parseSize? sz with
    | some k, some n =>
      if n = 0 ∨ (d.tab.any (·.name == name)) then bad else
      match acquire s n d.nextPage d.nextBig with
      | (s1, some p) =>
        let s2 := fill s1 p k n
        let d := { advance d s2 with st := some s2, tab := d.tab ++ [{ name := name, ptr := p, size := n, k := k }] }
        (d, [showPtr name p] ++ status d s2)
      | (_, none) => bad
    | _, _ => bad
  | some s, ["calloc", name, num, sz] =>
    match blockNo name, parseSize? num, parseSize? sz with
    | some k, some num, some sz =>
      if num = 0 ∨ sz = 0 ∨ num ≥ 2 ^ 64 ∨ sz ≥ 2 ^ 64 ∨ d.tab.any (·.name == name) then bad else
      -- a product that does not fit a size_t: the library refuses (fatal assert), the model's calloc returns nothing
      if num * sz ≥ 2 ^ 64 then
        (match calloc s num sz d.nextPage d.nextBig with
         | (_, none) => (d, ["P calloc refused"])
         | (_, some _) => (d, ["P calloc accepted"]))
      else if num * sz > 2 ^ 20 then bad else
      match calloc s num sz d.nextPage d.nextBig with
      | (s1, some p) =>
        let n := num * sz
        let zeros := countWhere ((readBytes s1.mem p n).map (· == 0))
        let s2 := fill s1 p k n
        let d := { advance d s2 with st := some s2, tab := d.tab ++ [{ name := name, ptr := p, size := n, k := k }] }
        (d, [showPtr name p, s!"P zero={zeros}"] ++ status d s2)
      | (_, none) => bad
    | _, _, _ => bad
  | some s, ["realloc", name, old, new] =>
    match d.tab.find? (·.name == name), parseSize? old, parseSize? new with
    | some e, some old, some new =>
      if old ≠ e.size ∨ (old > 2 ^ 41 ∧ new ≠ 0) then bad else
      match reallocD s e.ptr old new d.nextPage d.nextBig with
      | (s1, some q) =>
        let keep := min (touchOf old) (touchOf new)
        let kept := countWhere ((List.range keep).map (fun i => s1.mem (q.at i) == pat e.k i))
        let s2 := fill s1 q e.k new
        let tab := d.tab.map (fun x => if x.name == name then { x with ptr := q, size := new } else x)
        let d := { advance d s2 with st := some s2, tab := tab }
        (d, [showPtr name q, s!"P kept={kept}"] ++ status d s2)
      | (s1, none) =>
        if new = 0 then
          let d := { advance d s1 with st := some s1, tab := d.tab.filter (·.name != name) }
          (d, [s!"W {name} gone"] ++ status d s1)
        else bad
    | _, _, _ => bad
  | some s, ["rel", name] =>
    match d.tab.find? (·.name == name) with
    | some e =>
      let s1 := release s e.ptr
      let d := { d with st := some s1, tab := d.tab.filter (·.name != name) }
      (d, status d s1)
    | none => bad
  | some s, ["active"] => (d, [s!"P active={bytesActive s}"])
  | some s, ["reserved"] => (d, [s!"W reserved={bytesReserved s}"])
  | some _, ["pagesize"] => (d, [s!"P pagesize={pageSizeReported} avail={pageSizeReported - hdrSize}"])
  | some s, ["destroy"] =>
    if !d.tab.isEmpty then bad else
    let s1 := destroy s
    let pagesLeft := countWhere ((List.range d.nextPage).map (fun p => (s1.pages p).isSome))
    let parentLeft := countWhere ((List.range d.nextBig).map (fun p => (s1.parent p).isSome))
    ({ d with st := none, tab := [] }, [s!"P destroyed pages_left={pagesLeft} parent_left={parentLeft} backend_left=0"])
  | _, _ => bad

/-- `reltag pN w` (the harness first stores one tag word into the block) is a plain release for the model:
the caller's data is not the model's business -/
def step (d : DS) (t : List String) : DS × List String :=
  match t with
  | ["reltag", name, _] => stepCore d ["rel", name]
  | _ => stepCore d t

def component : Component := { σ := DS, init := {}, step := step }
end Driver.SbaD
