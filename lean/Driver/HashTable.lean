import Driver.Util
import AwsVerif.Model.HashTable
import AwsVerif.Model.Lookup3
/-! Line-protocol driver for the hash-table model (component `hashtable`).  Op language:

```
hash k7 ffffffffffffffff        user hash of ident 7 (default 0)
init t0 8 kv|k|v|-              aws_hash_table_init, which destructors are installed
put t0 k7.p1 v3 | create t0 k7.p0 | putn / createn t0 k e|c|- / removen t0 k out|noout (optional out-parameters NULL) | find t0 k7.p0 | remove t0 k7.p0 out|noout | remel t0 k7.p0
clear t0 | cleanup t0 | swap t0 t1 | move t1 t0 | eq t0 t1 | eqm t0 t1 (value_eq = equal mod 8) | count t0
iter_begin t0 i0 | iter_next i0 | iter_done i0 | iter_delete i0 destroy|keep
foreach t0 k1:3 k2:0 ...        callback flag word per ident (default 1 = CONTINUE; 2 = DELETE, 4 = ERROR)
hashic <hex> | eqic <hex> <hex> case-insensitive hash / equality of byte_buf.c
hl2 <hex>                       aws_hash_byte_cursor_ptr at the 4 alignments, aws_hash_string, aws_hash_c_string at the 4 alignments
hl2v / hl2sv / hptrv / hcombv    the same against source/hash_table.c compiled with -DVALGRIND
tinit str|cstr|cur|u64|ptr <size> | tput <key> v3 | tfind <key> | trem <key> | tclean
                                a table keyed through the library's own hash / equality (/ destroy) callbacks
pair <kind> <a> <b>             the pair itself: eq callback and whether the two hashes agree | lowertab
hl2s <hexkey> <hexafter>        the key as a sub-view of a larger buffer: following bytes vary, all 4 alignments
hptr <hex64> | hcomb <hex64> <hex64>   aws_hash_ptr, aws_hash_combine
```
Keys: `knull` or `k<ident>.p<ptr>`; values: `vnull` or `v<n>`.
Any structural change of a table makes the iterators on it stale (both sides apply the same rule);
an iterator op on a stale iterator prints `P iter stale`. -/
namespace Driver.HashTableD
open AwsVerif.HashTable Driver

structure ItSt where
  name : String
  tab : String
  it : Iter
  valid : Bool

structure St where
  hashes : List (Nat × Nat) := []
  tables : List (String × Option Table) := []
  iters : List ItSt := []
  tkind : Option String := none               -- typed table (library hash/equality pair): kind
  tmap : List (String × String) := []         -- its reference contents: canonical key ↦ value token

def St.h (s : St) : Nat → Nat := fun i => match s.hashes.find? (·.1 == i) with
  | some (_, v) => v
  | none => 0

def St.tab (s : St) (n : String) : Option Table := match s.tables.find? (·.1 == n) with
  | some (_, t) => t
  | none => none

def St.setTab (s : St) (n : String) (t : Option Table) : St :=
  { s with tables := (n, t) :: s.tables.filter (·.1 != n) }

/-- structural change of table `n`: every iterator on it is stale (except `keep`) -/
def St.stale (s : St) (n : String) (keep : String := "") : St :=
  { s with iters := s.iters.map fun i => if i.tab == n && i.name != keep then { i with valid := false } else i }

def St.iter (s : St) (n : String) : Option ItSt := s.iters.find? (·.name == n)
def St.setIter (s : St) (i : ItSt) : St := { s with iters := i :: s.iters.filter (·.name != i.name) }

def parseKey? (s : String) : Option Key :=
  if s == "knull" then some .null
  else if s.startsWith "k" then
    match (s.drop 1).toString.splitOn ".p" with
    | [a, b] => do let i ← a.toNat?; let p ← b.toNat?; pure (.mk i p)
    | _ => none
  else none

def parseIdent? (s : String) : Option Nat :=
  if s.startsWith "k" then (s.drop 1).toString.toNat? else none

def parseVal? (s : String) : Option Val :=
  if s == "vnull" then some none
  else if s.startsWith "v" then (s.drop 1).toString.toNat?.map some
  else none

def showKey : Key → String
  | .null => "knull"
  | .mk i p => s!"k{i}.p{p}"

def showVal : Val → String
  | none => "vnull"
  | some n => s!"v{n}"

def showKV (kv : Key × Val) : String := showKey kv.1 ++ "=" ++ showVal kv.2

def sortStrs (l : List String) : List String := (l.toArray.qsort (fun a b => a < b)).toList

def joinOrDash (l : List String) : String := if l.isEmpty then "-" else " ".intercalate l

def showEv : Ev → String
  | .k key => "k:" ++ showKey key
  | .v val => "v:" ++ showVal val

def logLines (log : List Ev) : List String :=
  if log.isEmpty then ["P D -"]
  else ["P D " ++ joinOrDash (sortStrs (log.map showEv)), "W D " ++ joinOrDash (log.map showEv)]

def hex64 (n : Nat) : String :=
  String.ofList ((List.range 16).map fun i => hexDigit ((n / 16 ^ (15 - i)) % 16))

def slotDump (t : Table) : String :=
  let cells := (List.range t.slots.size).filterMap fun i =>
    match rd t.slots i with
    | none => none
    | some e => some s!"{i}:{hex64 e.hash}:{showKey e.key}={showVal e.val}"
  joinOrDash cells

def stateLines (n : String) (t : Option Table) : List String :=
  match t with
  | none => [s!"P C {n} nil"]
  | some t =>
    [s!"P C {n} n={t.entryCount} " ++ joinOrDash (sortStrs ((contents t).map showKV)),
     s!"W S {n} size={t.size} max={t.maxLoad} mask={t.mask} cnt={t.entryCount} " ++ slotDump t]

def showErr : Err → String
  | .overflow => "AWS_ERROR_OVERFLOW_DETECTED"
  | .unknown => "AWS_ERROR_UNKNOWN"
  | .fuel => "MODEL-OUT-OF-FUEL"

def showIter (i : Iter) : List String :=
  let p := match i.status with
    | .done => "P iter done"
    | .deleteCalled => "P iter deleted"
    | .ready => "P iter ready " ++ (match i.elem with | some kv => showKV kv | none => "-")
  [p, s!"W iter slot={i.slot} limit={i.limit}"]

def parseFlags (ts : List String) : Option (List (Nat × Nat)) :=
  ts.foldr (fun tk acc => do
    let a ← acc
    match tk.splitOn ":" with
    | [k, f] => do let i ← parseIdent? k; let fl ← f.toNat?; pure ((i, fl) :: a)
    | _ => none) (some [])

def flagFn (fl : List (Nat × Nat)) : Key → Nat
  | .null => 1
  | .mk i _ => match fl.find? (·.1 == i) with
    | some (_, f) => f
    | none => 1

def parseDestr? (s : String) : Option (Bool × Bool) :=
  match s with
  | "kv" => some (true, true)
  | "k" => some (true, false)
  | "v" => some (false, true)
  | "-" => some (false, false)
  | _ => none

def bad (s : St) : St × List String := (s, ["bad-op"])

/-- the content-hash ops (`hl2`, `hl2s`, `hptr`, `hcomb`; with suffix `v`: the -DVALGRIND build of the same functions,
for which the model is the same byte-wise function — `c02_hashlittle2_any_address_valgrind`) -/
def hashOp? (t : List String) : Option (List String) :=
  match t with
  | [op, hx] =>
    if op == "hl2" || op == "hl2v" then
      match parseHex? hx with
      | some bs =>
        let hb := hex64 (AwsVerif.Lookup3.hashBytes bs)
        let hc := hex64 (AwsVerif.Lookup3.hashCStr bs)
        some [s!"P {op} consistent=1", s!"W {op} cur={hb},{hb},{hb},{hb} str={hb} cstr={hc},{hc},{hc},{hc}"]
      | none => some ["bad-op"]
    else if op == "hptr" || op == "hptrv" then
      match parseHexNat? hx with
      | some p => some [s!"W {op} " ++ hex64 (AwsVerif.Lookup3.hashPtr (p % 2 ^ 64))]
      | none => some ["bad-op"]
    else none
  | [op, x, y] =>
    if op == "hl2s" || op == "hl2sv" then
      match parseHex? x, parseHex? y with
      | some bs, some _ =>
        let hb := hex64 (AwsVerif.Lookup3.hashBytes bs)
        some [s!"P {op} consistent=1", s!"W {op} cur={hb},{hb},{hb},{hb}"]
      | _, _ => some ["bad-op"]
    else if op == "hcomb" || op == "hcombv" then
      match parseHexNat? x, parseHexNat? y with
      | some a, some b => some [s!"W {op} " ++ hex64 (AwsVerif.Lookup3.hashCombine (a % 2 ^ 64) (b % 2 ^ 64))]
      | _, _ => some ["bad-op"]
    else none
  | _ => none

/-! ### tables keyed through the library's own pairs (reference map only: P lines) and direct pair checks -/

def hexNum (n : Nat) : String := String.ofList (Nat.toDigits 16 n)

/-- what the pair's equality sees of a key token -/
def canonKey? (kind tok : String) : Option String :=
  if kind == "u64" || kind == "ptr" then (parseHexNat? tok).map fun n => hexNum (n % 2 ^ 64)
  else if kind == "cstr" then (parseHex? tok).map fun bs => hexOf (bs.takeWhile (· ≠ 0))
  else if kind == "str" || kind == "cur" then (parseHex? tok).map hexOf
  else none

def pairHash? (kind tok : String) : Option Nat :=
  if kind == "u64" then (parseHexNat? tok).map (· % 2 ^ 64)
  else if kind == "ptr" then (parseHexNat? tok).map fun n => AwsVerif.Lookup3.hashPtr (n % 2 ^ 64)
  else if kind == "cstr" then (parseHex? tok).map AwsVerif.Lookup3.hashCStr
  else if kind == "str" || kind == "cur" then (parseHex? tok).map AwsVerif.Lookup3.hashBytes
  else none

def typedLine (m : List (String × String)) : String :=
  s!"P TC n={m.length} " ++ joinOrDash (sortStrs (m.map fun kv => kv.1 ++ "=" ++ kv.2))

def typedOp? (s : St) (t : List String) : Option (St × List String) :=
  match t with
  | ["tinit", kind, sz] =>
    match canonKey? kind "00", parseSize? sz with
    | some _, some _ =>
      if s.tkind.isSome then some (s, ["P tinit refused"])
      else some ({ s with tkind := some kind, tmap := [] }, ["P tinit OK", typedLine []])
    | _, _ => some (s, ["bad-op"])
  | ["tput", k, v] =>
    match parseVal? v with
    | none => some (s, ["bad-op"])
    | some v =>
      match s.tkind with
      | none => some (s, ["P nil"])
      | some kind =>
        match canonKey? kind k with
        | none => some (s, ["bad-op"])
        | some ck =>
          let created := !(s.tmap.any (·.1 == ck))
          let m := (ck, showVal v) :: s.tmap.filter (·.1 != ck)
          some ({ s with tmap := m }, [s!"P tput created={if created then 1 else 0}", typedLine m])
  | ["tfind", k] =>
    match s.tkind with
    | none => some (s, ["P nil"])
    | some kind =>
      match canonKey? kind k with
      | none => some (s, ["bad-op"])
      | some ck => match s.tmap.find? (·.1 == ck) with
        | some kv => some (s, [s!"P tfind {kv.1}={kv.2}"])
        | none => some (s, ["P tfind none"])
  | ["trem", k] =>
    match s.tkind with
    | none => some (s, ["P nil"])
    | some kind =>
      match canonKey? kind k with
      | none => some (s, ["bad-op"])
      | some ck =>
        let present := s.tmap.any (·.1 == ck)
        let m := s.tmap.filter (·.1 != ck)
        some ({ s with tmap := m }, [s!"P trem present={if present then 1 else 0}", typedLine m])
  | ["tclean"] =>
    match s.tkind with
    | none => some (s, ["P nil"])
    | some _ => some ({ s with tkind := none, tmap := [] }, ["P tclean"])
  | ["pair", kind, a, b] =>
    match canonKey? kind a, canonKey? kind b, pairHash? kind a, pairHash? kind b with
    | some ca, some cb, some ha, some hb =>
      some (s, [s!"P pair eq={if ca == cb then 1 else 0} hasheq={if ha == hb then 1 else 0}"] ++
        (if kind == "u64" then ["W pair u64hash=" ++ hex64 ha] else []))
    | _, _, _, _ => some (s, ["bad-op"])
  | ["lowertab"] => some (s, ["P lowertab " ++ hexOf AwsVerif.Gen.tolowerTable.toList])
  | _ => none

def stepTable (s : St) (t : List String) : St × List String :=
  match t with
  | ["hash", k, hx] => match parseIdent? k, parseHexNat? hx with
    | some i, some v => ({ s with hashes := (i, v) :: s.hashes.filter (·.1 != i) }, [])
    | _, _ => bad s
  | ["hashic", hx] => match parseHex? hx with
    | some bs => (s, ["W hashic " ++ hex64 (hashIgnoreCase bs)])
    | none => bad s
  | ["eqic", a, b] => match parseHex? a, parseHex? b with
    | some a, some b => (s, [s!"P eqic {if eqIgnoreCase a b then 1 else 0} hasheq={if hashIgnoreCase a == hashIgnoreCase b then 1 else 0}"])
    | _, _ => bad s
  | ["init", n, sz, d] => match parseSize? sz, parseDestr? d with
    | some sz, some (dk, dv) =>
      if (s.tab n).isSome then (s, ["P init refused"]) else
      match init sz dk dv with
      | .ok tb => let s := (s.setTab n (some tb)).stale n; (s, ["P init OK"] ++ stateLines n (some tb))
      | .error e => (s, ["P init " ++ showErr e])
    | _, _ => bad s
  | ["put", n, k, v] => match parseKey? k, parseVal? v with
    | some k, some v => match s.tab n with
      | none => (s, ["P nil"])
      | some tb => match put s.h tb k v with
        | .error e => (s.stale n, ["P put " ++ showErr e])
        | .ok r => ((s.setTab n (some r.table)).stale n,
            [s!"P put OK created={if r.created then 1 else 0}"] ++ logLines r.log ++ stateLines n (some r.table))
    | _, _ => bad s
  | ["putn", n, k, v] => match parseKey? k, parseVal? v with
    | some k, some v => match s.tab n with
      | none => (s, ["P nil"])
      | some tb => match put s.h tb k v with
        | .error e => (s.stale n, ["P putn " ++ showErr e])
        | .ok r => ((s.setTab n (some r.table)).stale n, ["P putn OK"] ++ logLines r.log ++ stateLines n (some r.table))
    | _, _ => bad s
  | ["createn", n, k, mode] => match parseKey? k with
    | some k =>
      if mode != "e" && mode != "c" && mode != "-" then bad s else
      match s.tab n with
      | none => (s, ["P nil"])
      | some tb => match create s.h tb k with
        | .error e => (s.stale n, ["P createn " ++ showErr e])
        | .ok r =>
          let el := if mode == "e" then (match rd r.table.slots r.idx with | some e => showKV (e.key, e.val) | none => "-") else "-"
          let cr := if mode == "c" then (if r.created then "1" else "0") else "?"
          ((s.setTab n (some r.table)).stale n, [s!"P createn OK created={cr} {el}"] ++ stateLines n (some r.table))
    | none => bad s
  | ["removen", n, k, o] => match parseKey? k, (if o == "out" then some true else if o == "noout" then some false else none) with
    | some k, some o => match s.tab n with
      | none => (s, ["P nil"])
      | some tb => match remove s.h tb k o with
        | .error e => (s.stale n, ["P removen " ++ showErr e])
        | .ok r =>
          let shown := match r.out with
            | some (.null, none) => "-"       -- a zeroed struct: the harness cannot tell it from "absent"
            | some kv => showKV kv
            | none => "-"
          ((s.setTab n (some r.table)).stale n, ["P removen " ++ shown] ++ logLines r.log ++ stateLines n (some r.table))
    | _, _ => bad s
  | ["create", n, k] => match parseKey? k with
    | some k => match s.tab n with
      | none => (s, ["P nil"])
      | some tb => match create s.h tb k with
        | .error e => (s.stale n, ["P create " ++ showErr e])
        | .ok r =>
          let el := match rd r.table.slots r.idx with | some e => showKV (e.key, e.val) | none => "-"
          ((s.setTab n (some r.table)).stale n,
            [s!"P create OK created={if r.created then 1 else 0} {el}"] ++ stateLines n (some r.table))
    | none => bad s
  | ["find", n, k] => match parseKey? k with
    | some k => match s.tab n with
      | none => (s, ["P nil"])
      | some tb => (s, ["P find " ++ (match find s.h tb k with | some kv => showKV kv | none => "none")])
    | none => bad s
  | ["remove", n, k, o] => match parseKey? k, (if o == "out" then some true else if o == "noout" then some false else none) with
    | some k, some o => match s.tab n with
      | none => (s, ["P nil"])
      | some tb => match remove s.h tb k o with
        | .error e => (s.stale n, ["P remove " ++ showErr e])
        | .ok r => ((s.setTab n (some r.table)).stale n,
            [s!"P remove present={if r.present then 1 else 0} " ++ (match r.out with | some kv => showKV kv | none => "-")]
            ++ logLines r.log ++ stateLines n (some r.table))
    | _, _ => bad s
  | ["remel", n, k] => match parseKey? k with
    | some k => match s.tab n with
      | none => (s, ["P nil"])
      | some tb => match findIdx s.h tb k with
        | none => (s, ["P remel 0"])
        | some idx => match removeElement tb idx with
          | .error e => (s.stale n, ["P remel " ++ showErr e])
          | .ok tb' => ((s.setTab n (some tb')).stale n, ["P remel 1"] ++ logLines [] ++ stateLines n (some tb'))
    | none => bad s
  | ["clear", n] => match s.tab n with
    | none => (s, ["P nil"])
    | some tb => let (tb', log) := clear tb
      ((s.setTab n (some tb')).stale n, ["P clear"] ++ logLines log ++ stateLines n (some tb'))
  | ["cleanup", n] => match s.tab n with
    | none => (s, ["P cleanup nil"])
    | some tb => let (_, log) := clear tb
      ((s.setTab n none).stale n, ["P cleanup"] ++ logLines log ++ stateLines n none)
  | ["count", n] => match s.tab n with
    | none => (s, ["P nil"])
    | some tb => (s, [s!"P count {tb.entryCount}"])
  | ["swap", a, b] =>
    if a == b then bad s else
    let (ta, tb) := swapTables (s.tab a) (s.tab b)
    let s := (((s.setTab a ta).setTab b tb).stale a).stale b
    (s, ["P swap"] ++ stateLines a ta ++ stateLines b tb)
  | ["move", a, b] =>
    if a == b then bad s else
    match s.tab a, s.tab b with
    | none, some tb =>
      let (ta', tb') := moveTable (some tb)
      let s := (((s.setTab a ta').setTab b tb').stale a).stale b
      (s, ["P move"] ++ stateLines a ta' ++ stateLines b tb')
    | _, _ => (s, ["P move refused"])
  | ["eq", a, b] => match s.tab a, s.tab b with
    | some ta, some tb => (s, [s!"P eq {if tableEq s.h (fun x y => x == y) ta tb then 1 else 0}"])
    | _, _ => (s, ["P nil"])
  | ["eqm", a, b] => match s.tab a, s.tab b with
    | some ta, some tb => (s, [s!"P eqm {if tableEq s.h (fun x y => x % 8 == y % 8) ta tb then 1 else 0}"])
    | _, _ => (s, ["P nil"])
  | ["iter_begin", n, i] => match s.tab n with
    | none => (s, ["P nil"])
    | some tb => let it := iterBegin tb
      (s.setIter { name := i, tab := n, it := it, valid := true }, showIter it)
  | ["iter_next", i] => match s.iter i with
    | none => (s, ["P iter stale"])
    | some st => match st.valid, s.tab st.tab with
      | true, some tb => let it := iterNext tb st.it
        (s.setIter { st with it := it }, showIter it)
      | _, _ => (s, ["P iter stale"])
  | ["iter_done", i] => match s.iter i with
    | none => (s, ["P iter stale"])
    | some st => if st.valid then (s, [s!"P iter_done {if iterDone st.it then 1 else 0}"]) else (s, ["P iter stale"])
  | ["iter_delete", i, d] => match s.iter i, (if d == "destroy" then some true else if d == "keep" then some false else none) with
    | some st, some d => match st.valid, s.tab st.tab with
      | true, some tb =>
        if st.it.status != .ready then (s, ["P iter notready"]) else
        match iterDelete tb st.it d with
        | none => (s, ["P iter_delete MODEL-OUT-OF-FUEL"])
        | some (tb', it', log) =>
          let s := ((s.setTab st.tab (some tb')).stale st.tab i).setIter { st with it := it' }
          (s, showIter it' ++ logLines log ++ stateLines st.tab (some tb'))
      | _, _ => (s, ["P iter stale"])
    | none, some _ => (s, ["P iter stale"])
    | _, none => bad s
  | "foreach" :: n :: fl => match parseFlags fl with
    | some fl => match s.tab n with
      | none => (s, ["P nil"])
      | some tb =>
        let r := foreach tb (flagFn fl)
        let vis := r.visits.map showKV
        ((s.setTab n (some r.table)).stale n,
          ["P foreach " ++ (match r.rc with | none => "OK" | some e => showErr e),
           "P V " ++ joinOrDash (sortStrs vis), "W V " ++ joinOrDash vis] ++ stateLines n (some r.table))
    | none => bad s
  | _ => bad s

def step (s : St) (t : List String) : St × List String :=
  match hashOp? t with
  | some out => (s, out)
  | none => match typedOp? s t with
    | some r => r
    | none => stepTable s t

def component : Component := { σ := St, init := {}, step := step }
end Driver.HashTableD
