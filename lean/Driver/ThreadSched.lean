import Driver.Util
import AwsVerif.Model.ThreadSched
/-!
Driver for C08: replays, on the model, the schedule the implementation took under detsched.

`evs` lines carry the implementation's events on the modelled objects in schedule order,
`<who>.<kind>.<aux>.<virtual time>`; for each one the model thread `who` performs its next
sync operation followed by its thread-local steps up to the next sync point (one detsched step),
with the model clock set to the event's time, and the driver prints which operation the *model*
performed (`W ev …`).  The only information taken from the implementation besides thread and
time is how a condition-variable wait ended when the model allows both outcomes (time-out
before the notification or not): `wake` with ETIMEDOUT, `signal`/`broadcast` that woke nobody.
-/
namespace Driver.ThreadSchedD
open AwsVerif.ThreadSched Driver

def START_NS : Nat := 1000000000

structure St where
  n : Nat
  progs : List (List Op)
  cbs : Cbs
  evs : List String
  ok : Bool
  /-- detsched's `clock_tick_ns`: every clock read first advances virtual time by this much -/
  tick : Nat

def St.empty : St := { n := 0, progs := [], cbs := [], evs := [], ok := false, tick := 0 }

def parseProg : List String → Option (List Op)
  | [] => some []
  | "sn" :: t :: r => do let t ← t.toNat?; let rest ← parseProg r; if t < 32 then pure (.scheduleNow t :: rest) else none
  | "sf" :: t :: d :: r => do
      let t ← t.toNat?; let d ← parseU64? d; let rest ← parseProg r
      if t < 32 then pure (.scheduleFuture t (START_NS + d) :: rest) else none
  | "sa" :: t :: a :: r => do
      let t ← t.toNat?; let a ← parseU64? a; let rest ← parseProg r
      if t < 32 then pure (.scheduleFuture t a :: rest) else none
  | "c" :: t :: r => do let t ← t.toNat?; let rest ← parseProg r; if t < 32 then pure (.cancel t :: rest) else none
  | "acq" :: r => do let rest ← parseProg r; pure (.acquire :: rest)
  | "rel" :: r => do let rest ← parseProg r; pure (.release :: rest)
  | "sl" :: d :: r => do let _ ← parseU64? d; parseProg r   -- virtual sleep: only moves the clock
  | _ => none

/-- what a task function does: one of sn / sf / sa / c -/
def parseCbOp : List String → Option CbOp
  | ["sn", t] => do let t ← t.toNat?; if t < 32 then pure (.scheduleNow t) else none
  | ["sf", t, d] => do let t ← t.toNat?; let d ← parseU64? d; if t < 32 then pure (.scheduleFuture t (START_NS + d)) else none
  | ["sa", t, a] => do let t ← t.toNat?; let a ← parseU64? a; if t < 32 then pure (.scheduleFuture t a) else none
  | ["c", t] => do let t ← t.toNat?; if t < 32 then pure (.cancel t) else none
  | _ => none

def localS : SPc → Bool
  | .swap | .feed | .cancels | .readClock | .runAll | .running | .timeout | .predClock | .cbBody _ _ => true
  | _ => false

def localC : CPc → Bool
  | .sBody _ _ | .cBody _ | .dDrainQ | .dDrainC | .dCleanUp | .dSweep | .dcbBody _ _ | .dFree => true
  | _ => false

/-- the thread-local steps after a sync operation; the two clock reads of the loop (`readClock`,
`predClock`) see a clock that has been advanced by `tick` (an environment step of the model) -/
def runLocalS (tick : Nat) : Nat → Sys → Sys
  | 0, s => s
  | f + 1, s => if localS s.st.pc then
      let s := if s.st.pc == .readClock || s.st.pc == .predClock then { s with clock := s.clock + tick } else s
      match stepSched Cfg.fixed s with
      | some s' => runLocalS tick f s'
      | none => s
    else s

def runLocalC (i : Nat) : Nat → Sys → Sys
  | 0, s => s
  | f + 1, s =>
    match s.clients[i]? with
    | some c => if localC c.pc then
        match stepClient Cfg.fixed s i with
        | some s' => runLocalC i f s'
        | none => s
      else s
    | none => s

def evSched (tick : Nat) (s : Sys) (kind : String) (aux : Int) : Sys × String :=
  if kind == "spurious" then
    match stepSpurious s with
    | some s' => (s', "S spurious")
    | none => (s, "S spurious DISABLED")
  else
    let s := if s.st.pc == .blocked && kind == "wake" && aux != 0 then (stepSched Cfg.fixed s).getD s else s
    let label? : Option String := match s.st.pc with
      | .loadExit | .predLoad => some "load"
      | .lock1 | .lock2 | .cbLock _ _ => some "lock"
      | .unlock1 | .unlock2 | .cbUnlock _ => some "unlock"
      | .cbNotify _ => some "signal 0"
      | .wait => some "wait"
      | .reacq true => some "wake 1"
      | .reacq false => some "wake 0"
      | _ => none
    match label? with
    | none => (s, "S DESYNC " ++ toString (repr s.st.pc))
    | some l =>
      match stepSched Cfg.fixed s with
      | some s' => (runLocalS tick 100000 s', "S " ++ l)
      | none => (s, "S " ++ l ++ " DISABLED")

def evClient (s : Sys) (i : Nat) (kind : String) (aux : Int) : Sys × String :=
  match s.clients[i]? with
  | none => (s, s!"C{i} DESYNC no-such-thread")
  | some c =>
    let lost := (kind == "signal" && aux < 0) || (kind == "broadcast" && aux == 0)
    let isNotify := match c.pc with | .notify | .dNotify | .dcbNotify _ => true | _ => false
    let s := if isNotify && s.st.pc == .blocked && lost
      then (stepSched Cfg.fixed s).getD s else s
    let w := if s.st.pc == .blocked then 1 else 0
    let label? : Option String := match c.pc with
      | .idle => match c.prog with
        | [] => none
        | .acquire :: _ | .release :: _ => some "rmw"
        | _ => some "lock"
      | .unlock | .dcbUnlock _ => some "unlock"
      | .dcbLock _ _ => some "lock"
      | .notify | .dcbNotify _ => some s!"signal {w}"
      | .dStore => some "store"
      | .dNotify => some s!"broadcast {w}"
      | .dJoin => some "join"
      | _ => none
    match label? with
    | none => (s, s!"C{i} DESYNC " ++ toString (repr c.pc))
    | some l =>
      match stepClient Cfg.fixed s i with
      | some s' => (runLocalC i 100000 s', s!"C{i} " ++ l)
      | none => (s, s!"C{i} " ++ l ++ " DISABLED")

def procEv (tick : Nat) (acc : Sys × List String) (tok : String) : Sys × List String :=
  let (s, out) := acc
  match tok.splitOn "." with
  | [who, kind, aux, time] =>
    match parseInt? aux, time.toNat? with
    | some aux, some time =>
      let s := if time > s.clock then { s with clock := time } else s
      let (s', line) :=
        if who == "S" then evSched tick s kind aux
        else if who.startsWith "C" then
          match (who.drop 1).toString.toNat? with
          | some i => evClient s i kind aux
          | none => (s, "bad-ev")
        else (s, "bad-ev")
      (s', ("W ev " ++ line) :: out)
    | _, _ => (s, "bad-ev" :: out)
  | _ => (s, "bad-ev" :: out)

def who (k : Nat) : String := if k == 0 then "S" else s!"C{k - 1}"

def report (s : Sys) : List String :=
  let inv := s.log.flatMap fun e =>
    let st := match e.status with | .run => "RUN" | .canceled => "CANCELED"
    let early := if e.status == .run && e.time < s.tsOf e.task then 1 else 0
    [s!"P inv {e.task} {st} {who e.thread} early={early}", s!"W inv_at {e.task} {e.time}"]
  let rel := if s.released then
      match s.destroyer with
      | some k => s!"P released 1 by={who k} after=0"
      | none => "P released 1 by=? after=0"
    else "P released 0 by=- after=0"
  let leak := if s.released && s.freed.length == s.nextRec then 0 else 1
  inv ++ [rel, s!"P leak {leak}", "P sched deadlock=0 livelock=0 misuse=0", "W diverged 0"]

def simulate (st : St) : List String :=
  let s0 := init st.progs st.cbs
  let (s, out) := st.evs.foldl (procEv st.tick) (s0, [])
  out.reverse ++ report s

def setNth {α} (l : List α) (i : Nat) (a : α) : List α := l.set i a

def step (st : St) (t : List String) : St × List String :=
  match t with
  | "cfg" :: n :: _mode :: _seed :: _stay :: _spur :: rest =>
    match n.toNat?, (match rest with | [] => some 0 | [t] => parseU64? t | _ => none) with
    | some n, some tick =>
      if 1 ≤ n ∧ n ≤ 3 then ({ n := n, progs := List.replicate n [], cbs := [], evs := [], ok := true, tick := tick }, [])
      else (St.empty, ["bad-op"])
    | _, _ => (St.empty, ["bad-op"])
  | "prog" :: i :: rest =>
    match i.toNat?, parseProg rest with
    | some i, some p => if i < 4 then ({ st with progs := st.progs.set i p }, []) else (st, ["bad-op"])
    | _, _ => (st, ["bad-op"])
  | "cb" :: t :: k :: rest =>
    match t.toNat?, (if k == "R" then some Status.run else if k == "C" then some Status.canceled else none), parseCbOp rest with
    | some t, some k, some op =>
      if t < 32 then
        -- a later line for the same (task, status) replaces the earlier one, as in the harness
        ({ st with cbs := { task := t, status := k, op := op } :: st.cbs.filter (fun e => !(e.task == t && e.status == k)) }, [])
      else (st, ["bad-op"])
    | _, _, _ => (st, ["bad-op"])
  | "picks" :: _ => (st, [])
  | "choices" :: _ => (st, [])
  | "evs" :: rest => ({ st with evs := st.evs ++ rest }, [])
  | ["run"] =>
    if st.ok && st.n > 0 && st.progs.all (wfProg 1) &&
        decide ((st.progs.flatMap schedTasks ++ cbTargets st.cbs).Nodup)
    then (st, simulate st) else (st, ["bad-op"])
  | _ => (st, ["bad-op"])

def component : Component := { σ := St, init := St.empty, step := step }
end Driver.ThreadSchedD
