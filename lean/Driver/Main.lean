import Driver.Util
import Driver.Registry

def main (args : List String) : IO UInt32 := do
  match args with
  | [name] =>
    match Driver.registry.find? (·.1 == name) with
    | some (_, c) =>
      let stdin ← IO.getStdin
      let stdout ← IO.getStdout
      Driver.runLoop c stdin stdout c.init
      return 0
    | none => IO.eprintln s!"unknown component {name}"; return 2
  | _ => IO.eprintln "usage: awsmodel <component> < ops"; return 2
